#!/bin/sh
# run every check of one tier sequentially; print one summary line per check
tier=${1:-quick}
cd /verif
for p in C01 C02 C03 C04 C05 C06 C07 C08 C09 C10 C11 C12 C13 C14 C15 C16 C17 C18 C19 C20; do
  s=$(date +%s)
  ./check $p --tier $tier > /tmp/run_$p.log 2>&1
  rc=$?
  e=$(date +%s)
  echo "$p rc=$rc $((e-s))s $(grep -c '^VIOLATION' /tmp/run_$p.log) violations $(grep -c '^KNOWN-FINDING' /tmp/run_$p.log) known | $(grep '^\[C' /tmp/run_$p.log | tail -1 | cut -c1-160)"
done
