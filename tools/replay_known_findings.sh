#!/bin/sh
# Replays the committed witness of every open known finding through the plain replayer (no explorer, no workers).
cd /verif
rc=0
for f in known_replays/*.json; do
  p=$(python3 -c "import json,sys; print(json.load(open('$f'))['property'])")
  out=$(./check $p --replay $f 2>&1 | tail -1)
  echo "$f: $out"
  case "$out" in REPRODUCED*) ;; *) rc=1;; esac
done
exit $rc
