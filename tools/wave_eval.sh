#!/bin/sh
# wave_eval.sh <worktree-with-patch.diff-demo.py-meta.json> <ID> <variant> [checks...]
# Confirms a sub-agent's change in its own scratch worktree (demo passes clean / fails patched, repository tests
# 180/180 with the patch), evaluates the named checks (default: the property's own, quick tier) against the patched
# worktree from a scratch copy of /verif, and files the change as /verif/seeded/<ID>-<variant>/.  Never touches /repo.
set -u
wt=$1; id=$2; v=$3; shift 3; checks=${*:-$id}; mkdir -p /tmp/w4
[ -s "$wt/patch.diff" ] || { echo "$id/$v no patch.diff"; exit 2; }
cd "$wt"
git apply -R patch.diff 2>/dev/null || git checkout -q -- photon_weave
git checkout -q -- photon_weave
/venv/bin/python demo.py >/dev/null 2>&1; clean=$?
git apply patch.diff || { echo "$id/$v APPLY-FAILED"; exit 2; }
/venv/bin/python demo.py >/dev/null 2>&1; patched=$?
tests=$(python3 /verif/tools/repo_tests.py --repo "$wt" | head -1)
echo "wave4: $id/$v demo_clean_rc=$clean demo_patched_rc=$patched | $tests"
sv=/tmp/evalverif_$id$v
rm -rf "$sv" && mkdir -p "$sv" && rsync -a --exclude .git --exclude .cache --exclude replays /verif/ "$sv/"
export PWMC_REPO=$wt PWMC_JAX_CACHE=/verif/.cache/jax
cd "$sv"
for c in $checks; do
  s=$(date +%s)
  /venv/bin/python -m pwmc "$c" --tier "${TIER:-quick}" > "/tmp/w4/log_${id}_${v}_$c.log" 2>&1; rc=$?
  e=$(date +%s)
  echo "eval: $id/$v check=$c rc=$rc $((e-s))s viol=$(grep -c '^VIOLATION' /tmp/w4/log_${id}_${v}_$c.log) | $(grep -A1 '^VIOLATION' /tmp/w4/log_${id}_${v}_$c.log | grep clause | head -1 | cut -c1-160)"
done
cd /; rm -rf "$sv"
d=/verif/seeded/$id-$v; mkdir -p "$d"
cp "$wt/patch.diff" "$wt/demo.py" "$wt/meta.json" "$d/" 2>/dev/null
