#!/venv/bin/python
"""Build known_replays/<KF-id>.json from the witness recorded in known_findings.json (runs the witness once)."""
import json, sys
sys.path.insert(0, "/verif")
from pwmc.replay import replay_doc
from pwmc import report

kid = sys.argv[1]
kf = [f for f in json.load(open("/verif/known_findings.json"))["findings"] if f["id"] == kid][0]
w = kf["witness"]
hist = [[a, [], None] if not (isinstance(a[0], list)) else a for a in w["history"]]
hist = [[h[0], h[1] if len(h) > 1 else []] for h in hist]
doc = {"property": kf["property"], "world": w["world"], "history": hist, "signature": {}, "fault": kf["property"] == "C17"}
ok, V, _ = replay_doc(doc, verbose=True)
hits = [v for v in V if v["sig"]["property"] == kf["property"] and report.matches(kf["pattern"], v["sig"])]
if not hits:
    print("witness does not produce a matching violation"); sys.exit(1)
doc["signature"] = hits[0]["sig"]
doc["clause"] = hits[0]["sig"]["clause"]
doc["detail"] = hits[0]["detail"]
doc["history"] = [[h[0], h[1]] for h in hist]
json.dump(doc, open(f"/verif/known_replays/{kid}.json", "w"), indent=1, default=str)
print("written", kid, doc["signature"]["clause"], doc["signature"]["symptom"])
