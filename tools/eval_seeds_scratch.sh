#!/bin/sh
# eval_seeds_scratch.sh C05/a C13/d ...   (env CHECK="C02 C03" to run other checks, TIER=quick|thorough)
# Applies /verif/seeded/<ID>-<v>/patch.diff to a scratch worktree of /repo (never to /repo itself), runs the check(s)
# from a scratch copy of /verif with PWMC_REPO pointing at the worktree, prints one line per (seed, check), and
# removes both scratch copies at the end.
set -u
rm -rf /tmp/evalverif && mkdir -p /tmp/evalverif && rsync -a --exclude .git --exclude .cache --exclude replays /verif/ /tmp/evalverif/
if [ ! -d /tmp/evalrepo ]; then git -C /repo worktree add -q --detach /tmp/evalrepo HEAD; fi
git -C /tmp/evalrepo checkout -q --detach "$(git -C /repo rev-parse HEAD)"; git -C /tmp/evalrepo checkout -q -- .
export PWMC_REPO=/tmp/evalrepo PWMC_JAX_CACHE=/verif/.cache/jax
for item in "$@"; do
  id=${item%%/*}; v=${item##*/}; chk=${CHECK:-$id}
  sd=/verif/seeded/$id-$v
  git -C /tmp/evalrepo checkout -q -- .
  git -C /tmp/evalrepo apply "$sd/patch.diff" || { echo "$item APPLY-FAILED"; continue; }
  cd /tmp/evalverif
  for c in $chk; do
    s=$(date +%s)
    /venv/bin/python -m pwmc "$c" --tier "${TIER:-quick}" > "/tmp/evalverif/seedlog_${id}_${v}_$c.log" 2>&1
    rc=$?
    e=$(date +%s)
    echo "$item check=$c rc=$rc $((e-s))s viol=$(grep -c '^VIOLATION' /tmp/evalverif/seedlog_${id}_${v}_$c.log) | $(grep -A1 '^VIOLATION' /tmp/evalverif/seedlog_${id}_${v}_$c.log | grep clause | head -1 | cut -c1-150)"
  done
  git -C /tmp/evalrepo checkout -q -- .
done
cd /
git -C /repo worktree remove --force /tmp/evalrepo; git -C /repo worktree prune; rm -rf /tmp/evalverif
