#!/bin/sh
# eval_all_seeds.sh <seed-root> <ids...> : evaluate seeds in a scratch copy (does not touch /repo or /verif)
# <seed-root>/<ID>/seed/<v>/patch.diff   or /verif/seeded/<ID>-<v>/patch.diff (second form when root=/verif/seeded)
root=$1; shift
rm -rf /tmp/evalverif && mkdir -p /tmp/evalverif && rsync -a --exclude .git --exclude .cache --exclude replays /verif/ /tmp/evalverif/
if [ ! -d /tmp/evalrepo ]; then git -C /repo worktree add -q --detach /tmp/evalrepo HEAD; fi
git -C /tmp/evalrepo checkout -q --detach $(git -C /repo rev-parse HEAD); git -C /tmp/evalrepo checkout -q -- .
export PWMC_REPO=/tmp/evalrepo PWMC_JAX_CACHE=/verif/.cache/jax
for id in "$@"; do
  for sd in $root/$id/seed/a $root/$id/seed/b; do
    [ -f $sd/patch.diff ] || continue
    git -C /tmp/evalrepo checkout -q -- .
    git -C /tmp/evalrepo apply $sd/patch.diff || { echo "$sd APPLY-FAILED"; continue; }
    cd /tmp/evalverif
    s=$(date +%s)
    /venv/bin/python -m pwmc $id --tier ${TIER:-quick} > /tmp/evalverif/seedlog_$(echo $sd | tr / _).log 2>&1
    rc=$?
    e=$(date +%s)
    echo "$sd check=$id rc=$rc $((e-s))s viol=$(grep -c '^VIOLATION' /tmp/evalverif/seedlog_$(echo $sd | tr / _).log) | $(grep -A1 '^VIOLATION' /tmp/evalverif/seedlog_$(echo $sd | tr / _).log | grep clause | head -1 | cut -c1-150)"
    git -C /tmp/evalrepo checkout -q -- .
  done
done
