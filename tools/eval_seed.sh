#!/bin/sh
# eval_seed.sh <seed-dir> <check-id> [<check-id> ...]
# Applies <seed-dir>/patch.diff to /repo, runs the given quick checks, reverts /repo.
sd=$1; shift
cd /repo || exit 9
if [ -n "$(git status --porcelain -- photon_weave)" ]; then echo "/repo not clean"; exit 9; fi
git apply "$sd/patch.diff" || { echo "APPLY-FAILED $sd"; exit 8; }
cd /verif
for c in "$@"; do
  ./check $c --tier ${TIER:-quick} > /tmp/seed_eval_$c.log 2>&1
  rc=$?
  echo "  $sd : check $c rc=$rc violations=$(grep -c '^VIOLATION' /tmp/seed_eval_$c.log) | $(grep -A1 '^VIOLATION' /tmp/seed_eval_$c.log | grep clause | head -2 | cut -c1-170 | tr '\n' ';')"
done
git -C /repo checkout -- .
