#!/usr/bin/env python3
"""Summarise /verif/replays/<ID>/*.json by signature fields.  tools/triage.py C01 [field,field,...]"""
import collections, glob, json, sys
prop = sys.argv[1]
fields = sys.argv[2].split(",") if len(sys.argv) > 2 else ["clause", "symptom", "kind", "name", "entry", "tkinds", "loc", "level", "contraction"]
gs = [json.load(open(f)) for f in glob.glob(f"/verif/replays/{prop}/*.json")]
c = collections.Counter()
ex = {}
for g in gs:
    s = g["signature"]
    k = tuple(s[f] for f in fields)
    c[k] += 1
    ex.setdefault(k, (g["detail"], len(g["history"])))
for k, v in sorted(c.items(), key=lambda x: (str(x[0]))):
    print(v, k, "|", str(ex[k][0])[:110], f"(len {ex[k][1]})")
print(len(gs), "signatures")
