#!/usr/bin/env python3
"""Run the repository's own test-suite and compare with /root/.vp/BASELINE.json.

  tools/repo_tests.py [--serial] [--repo DIR]

Default: one pytest process per test file, in parallel (about 75 s).  --serial runs the
exact baseline command (about 6 min); use it for the final validation of a fix: commit,
because the contraction flag leaks between tests and the order matters.
Exit 0 iff every test of BASELINE.stable_pass passed.
"""
import json
import os
import subprocess
import sys
import tempfile
import xml.etree.ElementTree as ET
from concurrent.futures import ThreadPoolExecutor

BASE = json.load(open("/root/.vp/BASELINE.json"))


def parse(junit):
    res = {}
    for tc in ET.parse(junit).getroot().iter("testcase"):
        name = f"{tc.get('classname')}::{tc.get('name')}"
        bad = any(c.tag in ("failure", "error", "skipped") for c in tc)
        res[name] = not bad
    return res


def run(repo, target, out):
    cmd = ["/venv/bin/python", "-m", "pytest", "-ra", "-q", "-p", "no:cacheprovider",
           "--timeout=900", "--continue-on-collection-errors", f"--junitxml={out}"]
    if target:
        cmd.append(target)
    env = dict(os.environ)
    env.pop("PHOTON_WEAVE_VERIF", None)
    subprocess.run(cmd, cwd=repo, env=env, stdout=subprocess.DEVNULL, stderr=subprocess.DEVNULL)
    return parse(out) if os.path.exists(out) else {}


def main():
    repo = "/repo"
    serial = "--serial" in sys.argv
    if "--repo" in sys.argv:
        repo = sys.argv[sys.argv.index("--repo") + 1]
    res = {}
    with tempfile.TemporaryDirectory() as td:
        if serial:
            res = run(repo, None, os.path.join(td, "all.xml"))
        else:
            files = []
            for root, _, fs in os.walk(os.path.join(repo, "tests")):
                for f in fs:
                    if f.startswith("test_") and f.endswith(".py"):
                        files.append(os.path.relpath(os.path.join(root, f), repo))
            with ThreadPoolExecutor(len(files)) as ex:
                for i, r in enumerate(ex.map(lambda a: run(repo, a[1], os.path.join(td, f"{a[0]}.xml")),
                                             list(enumerate(sorted(files))))):
                    res.update(r)
    missing = [t for t in BASE["stable_pass"] if not res.get(t)]
    newly = [t for t in BASE["always_fail"] if res.get(t)]
    print(f"tests seen={len(res)} passed={sum(res.values())} "
          f"stable_pass ok={len(BASE['stable_pass']) - len(missing)}/{len(BASE['stable_pass'])}")
    for t in missing:
        print("BASELINE-TEST-NOT-PASSING", t)
    for t in newly:
        print("note: baseline always_fail test now passes:", t)
    sys.exit(1 if missing else 0)


if __name__ == "__main__":
    main()
