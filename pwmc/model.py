"""Reference semantics of every action: validity (enabledness), expected joint state,
expected measured sets, expected return values.  Built on ref.Ref and optable.

The model never looks at containers / levels / indices of the implementation; the only
implementation facts it is handed are the current `dimensions` of the addressed
subsystems (a user needs them to build Kraus / POVM / Custom operators of the right size).
"""
import numpy as np

from . import optable as OT
from .ref import Ref
from .world import POL1, FOCK1, CUST1, COMP

POLVEC = {
    "H": np.array([1, 0], dtype=complex),
    "V": np.array([0, 1], dtype=complex),
    "R": np.array([1, 1j], dtype=complex) / np.sqrt(2),
    "L": np.array([1, -1j], dtype=complex) / np.sqrt(2),
}

RENORM_FOCK = {"FLower": False, "FLowerX": False, "Creation": True, "Annihilation": True, "Squeeze": True,
               "PhaseShift": False, "Displace": False, "FIdentity": False, "FCustom": False, "FExpr": False}


def embed_multi(op, from_dims, to_dims, unitary_fill=False):
    """Embed an operator on prod(from_dims) into prod(to_dims) (from <= to per axis)."""
    k = len(from_dims)
    t = np.asarray(op, dtype=complex).reshape(list(from_dims) + list(from_dims))
    pad = [(0, to_dims[i % k] - from_dims[i % k]) for i in range(2 * k)]
    t = np.pad(t, pad)
    n = int(np.prod(to_dims))
    out = t.reshape(n, n)
    if unitary_fill:
        assert k == 1
        for i in range(from_dims[0], to_dims[0]):
            out[i, i] = 1
    return out


class Model:
    def __init__(self, spec, D=6):
        self.D = D
        names, dims, kinds, env_of = [], {}, {}, {}
        for e in spec.get("envs", []):
            names += [e + ".f", e + ".p"]
            dims[e + ".f"] = D
            dims[e + ".p"] = 2
            kinds[e + ".f"] = "F"
            kinds[e + ".p"] = "P"
            env_of[e + ".f"] = e
            env_of[e + ".p"] = e
        for q, d in spec.get("custom", {}).items():
            names.append(q)
            dims[q] = int(d)
            kinds[q] = "Q"
            env_of[q] = None
        self.ref = Ref(names, dims, kinds, env_of)
        init = spec.get("init", {})
        vecs = {}
        for s in names:
            if kinds[s] == "F":
                v = np.zeros(D, dtype=complex)
                v[int(init.get(s, 0))] = 1
            elif kinds[s] == "P":
                v = POLVEC[init.get(s, "H")]
            else:
                v = np.zeros(dims[s], dtype=complex)
                v[int(init.get(s, 0))] = 1
            vecs[s] = v
        self.ref.set_product(vecs)
        self.envs = list(spec.get("envs", []))
        self.env_retired = {e: False for e in self.envs}
        self.members = {}     # handle -> set of subsystem roles
        for h, args in spec.get("handles", {}).items():
            self._new_handle(h, args)
        self.contraction = bool(spec.get("contraction", True))
        self.phase_sign = +1  # ambiguity (ii): calibrated, see calibrate_phase_sign
        self.tags = dict(spec.get("tags", {}))

    def copy(self):
        m = Model.__new__(Model)
        m.D = self.D
        m.ref = self.ref.copy()
        m.envs = list(self.envs)
        m.env_retired = dict(self.env_retired)
        m.members = {h: set(v) for h, v in self.members.items()}
        m.contraction = self.contraction
        m.phase_sign = self.phase_sign
        m.tags = self.tags
        return m

    # ------------------------------------------------------------------ membership
    def _new_handle(self, h, args):
        mem = set()
        for a in args:
            if a in self.members:        # another handle
                mem |= self.members[a]
            elif a in self.envs:
                mem |= {a + ".f", a + ".p"}
                # an envelope already owned by another composite brings that composite along
                for h2, m2 in self.members.items():
                    if a + ".f" in m2:
                        mem |= m2
            else:
                mem.add(a)
        # merged handles all see the union
        for h2, m2 in list(self.members.items()):
            if m2 & mem:
                mem |= m2
        for h2, m2 in list(self.members.items()):
            if m2 & mem:
                self.members[h2] = mem
        self.members[h] = mem

    def handle_of(self, s):
        for h, m in self.members.items():
            if s in m:
                return h
        return None

    # ------------------------------------------------------------------ operators at reference dims
    def ref_operator(self, name, params, targets, impl_dims):
        """-> (operator on the targets at reference dims, renormalise?)  (None, None) if not representable."""
        p = params or {}
        R = self.ref
        rd = [R.dims[t] for t in targets]
        if name in POL1:
            if name in ("RX", "RY", "RZ"):
                return getattr(OT, name)(p["theta"]), True
            if name == "U3":
                return OT.U3(p["phi"], p["theta"], p["omega"]), True
            if name == "PCustom":
                return OT.nonunitary(2, p.get("tag", 0)), True
            return {"I": OT.I2, "X": OT.X, "Y": OT.Y, "Z": OT.Z, "H": OT.H, "S": OT.S, "T": OT.T, "SX": OT.SX}[name], True
        if name in FOCK1:
            d = rd[0]
            if name == "Creation":
                return OT.create(d), True
            if name == "Annihilation":
                return OT.destroy(d), True
            if name == "PhaseShift":
                return OT.phase(d, self.phase_sign * p["phi"]), False
            if name == "FIdentity":
                return np.eye(d, dtype=complex), False
            if name == "Displace":
                a = p["alpha"]
                return OT.displace(d, complex(*a) if isinstance(a, (list, tuple)) else a), False
            if name == "Squeeze":
                z = p["zeta"]
                return OT.squeeze(d, complex(*z) if isinstance(z, (list, tuple)) else z), True
            if name == "FCustom":
                di = impl_dims[0] + int(p.get("grow", 0))
                if di <= 0 or di > d:
                    return None, None
                return embed_multi(OT.fixed_unitary(di, p.get("tag", 1)), [di], [d], unitary_fill=True), False
            if name == "FExpr":
                return np.diag(np.exp(1j * float(p.get("t", 0.7)) * np.arange(d))), False
            if name in ("FLower", "FLowerX"):
                return OT.destroy(d), False
        if name in CUST1:
            d = rd[0]
            if name == "QCustom":
                return OT.nonunitary(d, p.get("tag", 2)), True
            g = OT._fixed_complex(d, d, 3)
            g = g + g.conj().T
            return OT.expm(1j * 0.4 * g), True
        if name in COMP:
            if name == "CX":
                return OT.CX, True
            if name == "CZ":
                return OT.CZ, True
            if name == "SWAP":
                return OT.SWAP, True
            if name == "CSWAP":
                return OT.CSWAP, True
            if name == "BS":
                return OT.beamsplitter(rd[0], rd[1], p["eta"]), True
            if name == "XFP":
                return OT.expm(1j * 0.4 * np.kron(OT.number(rd[0]), OT.X)), True
            if name == "XFF":
                n1 = OT.number(rd[1])
                return OT.expm(1j * 0.3 * np.kron(OT.number(rd[0]), n1 @ n1)), True
            if name == "XPQ":
                d = rd[1]
                g = OT._fixed_complex(d, d, 4)
                g = g + g.conj().T
                return OT.expm(1j * 0.5 * np.kron(OT.Z, g)), True
            if name == "XID":
                return np.eye(int(np.prod(rd)), dtype=complex), True
        raise KeyError(name)

    def ref_kraus(self, world, name, targets, params=None):
        """Operators built at implementation dims, embedded at reference dims; None if not representable."""
        impl = world.impl_dims(targets)
        rd = [self.ref.dims[t] for t in targets]
        for a, b in zip(impl, rd):
            if a <= 0 or a > b:
                return None
        ks = world.kraus_ops(name, targets, params)
        n = int(np.prod(impl))
        if any(np.asarray(k).shape != (n, n) for k in ks):
            return "wrongsize"
        tot = sum(np.asarray(k).conj().T @ np.asarray(k) for k in ks)
        if np.max(np.abs(tot - np.eye(n))) > 1e-9:
            return "incomplete"
        return [embed_multi(k, impl, rd) for k in ks]

    # ------------------------------------------------------------------ validity
    def _alive(self, targets):
        return all(self.ref.alive(t) for t in targets)

    def _entry_ok(self, entry, targets):
        if entry == "state":
            return len(targets) == 1
        k, r = entry.split(":")
        if k == "env":
            return all(self.ref.env_of.get(t) == r for t in targets) and len(set(targets)) == len(targets)
        if k == "ce":
            m = self.members.get(r)
            return m is not None and all(t in m for t in targets) and len(set(targets)) == len(targets)
        return False

    def kinds_of(self, targets):
        return "".join(self.ref.kinds[t] for t in targets)

    def enabled(self, a, world, obs=None):
        """True iff `a` is a *valid request* in the current reference state."""
        R = self.ref
        kind = a[0]
        if kind == "op":
            _, entry, targets, name, params = a
            if not self._alive(targets) or not self._entry_ok(entry, targets):
                return False
            ks = self.kinds_of(targets)
            if name in POL1:
                ok = ks == "P"
            elif name in FOCK1:
                ok = ks == "F"
            elif name in CUST1:
                ok = ks == "Q"
            else:
                ok = entry.startswith("ce:") and {
                    "CX": ks == "PP", "CZ": ks == "PP", "SWAP": ks == "PP", "CSWAP": ks == "PPP",
                    "BS": ks == "FF", "XFP": ks == "FP", "XFF": ks == "FF", "XPQ": ks == "PQ",
                    "XID": len(ks) >= 1}[name]
            if not ok:
                return False
            if entry.startswith("env:") and len(targets) != 1:
                return False
            if name == "Creation" and R.max_occupation(targets[0]) > R.dims[targets[0]] - 2:
                return False
            if name == "BS" and R.max_occupation(targets[0]) + R.max_occupation(targets[1]) > min(
                    R.dims[targets[0]], R.dims[targets[1]]) - 1:
                return False
            if name in ("FCustom",):
                if world.fock_dim(targets[0]) <= 0:
                    return False
            op, _ = self.ref_operator(name, params, targets, world.impl_dims(targets))
            if op is None:
                return False
            if name in ("Annihilation", "PCustom", "QCustom", "FLower", "FLowerX") and R.would_vanish(op, targets):
                return False
            if name in ("FLower", "FLowerX"):
                # a non-unitary operator through a non-renormalising type is only issued as a fault probe
                return False
            if name == "FLower" and world.fock_dim(targets[0]) <= 0:
                return False
            return True
        if kind == "kraus":
            _, entry, targets, name, params = a
            if not self._alive(targets) or not self._entry_ok(entry, targets):
                return False
            if entry.startswith("env:") and not (1 <= len(targets) <= 2):
                return False
            ks = self.ref_kraus(world, name, targets, params)
            return ks is not None and not isinstance(ks, str)
        if kind == "measure":
            _, entry, targets, sep, destr = a
            if not self._alive(targets) or not self._entry_ok(entry, targets):
                return False
            if entry.startswith("env:"):
                e = entry.split(":")[1]
                if self.env_retired[e]:
                    return False
                if not (R.alive(e + ".f") and R.alive(e + ".p")):
                    return False
            if entry.startswith("ce:") and len(targets) == 0:
                return False
            return True
        if kind == "povm":
            _, entry, targets, name, destr, partial = a
            if not self._alive(targets) or not self._entry_ok(entry, targets) or len(targets) == 0:
                return False
            if entry.startswith("env:"):
                e = entry.split(":")[1]
                if self.env_retired[e] or len(targets) > 2:
                    return False
            ks = self.ref_kraus(world, name, targets)
            return ks is not None and not isinstance(ks, str)
        if kind in ("env_combine",):
            e = a[1]
            if obs is not None:
                # validity left open by the documentation when a member lives in a product space (or is combined already)
                locs = {obs.location(e + ".f"), obs.location(e + ".p")}
                if not locs <= {"own"}:
                    return False
            return R.alive(e + ".f") and R.alive(e + ".p") and not self.env_retired[e]
        if kind == "env_reorder":
            e = a[1]
            return (R.alive(e + ".f") and R.alive(e + ".p") and not self.env_retired[e]
                    and self._entry_ok("env:" + e, a[2]) and 1 <= len(a[2]) <= 2)
        if kind in ("expand", "contract"):
            entry, targets = a[1], a[2]
            if kind == "expand" and obs is not None and entry.startswith("ce:"):
                # CompositeEnvelope.expand(states) is undocumented; it only touches product spaces
                if any(obs.location(t) != "ps" for t in targets):
                    return False
            if kind == "contract" and obs is not None:
                # contract() on a subsystem whose state lives elsewhere, and Envelope.contract() on
                # anything but a combined matrix-level envelope: validity left open by the docs
                if entry == "state" and obs.location(targets[0]) != "own":
                    return False
                if entry.startswith("env:"):
                    e = entry.split(":")[1]
                    b = obs.block_of(e + ".f")
                    if b is None or b.kind != "env" or b.level != "M":
                        return False
            if entry.startswith("env:"):
                e = entry.split(":")[1]
                return R.alive(e + ".f") and R.alive(e + ".p") and not self.env_retired[e]
            return self._alive(targets) and self._entry_ok(entry, targets) and len(targets) >= 1
        if kind in ("ce_combine", "ce_reorder"):
            h, targets = a[1], a[2]
            return self._alive(targets) and self._entry_ok("ce:" + h, targets) and len(targets) >= 1
        if kind == "ce_new":
            _, h, args = a
            if h in self.members:
                return False
            for x in args:
                if x in self.envs:
                    if self.env_retired[x] or not (R.alive(x + ".f") and R.alive(x + ".p")):
                        return False
                elif x in self.members:
                    pass
                elif x in R.kinds and R.kinds[x] == "Q":
                    # a custom state that already belongs to a composite envelope: whether a second
                    # constructor call must merge is left open by the documentation -> not issued
                    if self.handle_of(x) is not None:
                        return False
                else:
                    return False
            return len(args) >= 1
        if kind == "trace_out":
            _, entry, targets = a
            if not self._alive(targets) or not self._entry_ok(entry, targets) or len(targets) == 0:
                return False
            if entry.startswith("env:"):
                e = entry.split(":")[1]
                if self.env_retired[e] or not (R.alive(e + ".f") and R.alive(e + ".p")):
                    return False
            return True
        if kind == "resize":
            _, entry, target, n = a
            if not R.alive(target) or R.kinds[target] != "F" or n < 0:
                return False
            if entry.startswith("env:"):
                e = entry.split(":")[1]
                if self.env_retired[e] or R.env_of[target] != e:
                    return False
                return True
            return self._entry_ok(entry, [target])
        if kind == "set_contraction":
            return True
        return False

    # ------------------------------------------------------------------ expected effects
    def measured_sets(self, a):
        """List of acceptable measured sets (more than one where the spec is ambiguous)."""
        R = self.ref
        _, entry, targets, sep, destr = a
        if entry.startswith("env:") and len(targets) == 0:
            e = entry.split(":")[1]
            return [[e + ".f", e + ".p"]]
        base = list(targets)
        if sep:
            return [base]
        full = list(base)
        for t in base:
            pt = R.partner(t)
            if pt is not None and R.alive(pt) and pt not in full:
                full.append(pt)
        if entry == "state" and R.kinds[targets[0]] == "P" and len(full) > len(base):
            # ambiguity (i): Polarization.measure() docstring is silent about the partner
            return [full, base]
        return [full]

    def apply_measure(self, a, outcome_pairs):
        """Project the reference on the reported outcomes (restricted to live subsystems).
        Returns the reference probability of that outcome assignment."""
        R = self.ref
        _, entry, targets, sep, destr = a
        if "mzi_phi" in self.tags:
            self.tags = dict(self.tags, mzi_dirty=True)
        assign = {}
        for s, v in outcome_pairs:
            if R.alive(s) and s not in assign:
                assign[s] = v
        destroy = [s for s in assign if destr and R.kinds[s] in "FP"]
        p = R.project(assign, destroy)
        for s in destroy:
            e = R.env_of.get(s)
            if e is not None:
                self.env_retired[e] = True
        return p

    def apply(self, a, world):
        """Apply a deterministic (non-measurement) action to the reference.
        `world` is the implementation world BEFORE the action (for operator sizes).
        Returns a dict of expectations for the monitors."""
        R = self.ref
        kind = a[0]
        exp = {}
        if kind in ("op", "kraus") and "mzi_phi" in self.tags:
            # the closed-form interferometer prediction only holds as long as nothing but structural calls follow
            self.tags = dict(self.tags, mzi_dirty=True)
        if kind == "op":
            _, entry, targets, name, params = a
            op, ren = self.ref_operator(name, params, targets, world.impl_dims(targets))
            R.apply_op(op, targets, ren)
        elif kind == "kraus":
            _, entry, targets, name, params = a
            R.apply_kraus(self.ref_kraus(world, name, targets, params), targets)
        elif kind == "ce_new":
            self._new_handle(a[1], a[2])
        elif kind == "trace_out":
            exp["reduced"] = R.reduced(a[2])
        elif kind == "set_contraction":
            self.contraction = bool(a[1])
        elif kind == "resize":
            _, entry, target, n = a
            exp["can_shrink"] = R.max_occupation(target) < n
        return exp
