"""Observation of the implementation's object graph (public attributes only).

Produces (a) storage blocks with their density matrices, (b) the bookkeeping view,
(c) the reconstructed joint density matrix, (d) the canonical key (exact bytes),
(e) the C07 well-formedness problems.  Never trusts `index`; never compares library
objects by value.
"""
import hashlib

import numpy as np

from . import env as E

LEVEL = {E.ExpansionLevel.Label: "L", E.ExpansionLevel.Vector: "V", E.ExpansionLevel.Matrix: "M"}
POLVEC = {
    "H": np.array([1, 0], dtype=complex),
    "V": np.array([0, 1], dtype=complex),
    "R": np.array([1, 1j], dtype=complex) / np.sqrt(2),
    "L": np.array([1, -1j], dtype=complex) / np.sqrt(2),
}


def lvl(x):
    if x is None:
        return None
    try:
        return LEVEL[E.ExpansionLevel(int(x))]
    except Exception:
        return f"?{x!r}"


class Block:
    __slots__ = ("kind", "holder", "members", "level", "dims", "raw", "rho", "arr_id", "problems", "repr_kind")

    def __init__(self, kind, holder):
        self.kind = kind          # own | env | ps
        self.holder = holder      # role of the subsystem / envelope / "container#i"
        self.members = []
        self.level = None         # declared level
        self.dims = []
        self.raw = None           # np array or ("label", v)
        self.rho = None
        self.arr_id = None
        self.problems = []        # (clause, text)
        self.repr_kind = None     # what the data looks like: L | V | M


def _np(a):
    return np.asarray(a)


def _psd_problems(rho, problems, tol=1e-8):
    if not np.all(np.isfinite(rho)):
        problems.append(("matrix-finite", "non-finite entries"))
        return
    if np.max(np.abs(rho - rho.conj().T)) > tol:
        problems.append(("matrix-herm", f"max|rho-rho^H|={np.max(np.abs(rho - rho.conj().T)):.3e}"))
    tr = np.trace(rho)
    if abs(tr - 1) > tol:
        problems.append(("matrix-trace", f"trace={tr.real:.9f}{tr.imag:+.2e}j"))
    try:
        ev = np.linalg.eigvalsh((rho + rho.conj().T) / 2)
        if ev[0] < -1e-8:
            problems.append(("matrix-psd", f"lambda_min={ev[0]:.3e}"))
    except Exception as ex:  # pragma: no cover
        problems.append(("matrix-psd", f"eig failed {ex}"))


def _array_block(b, arr, declared):
    """Interpret an array by its shape; fill rho / repr_kind / problems."""
    a = _np(arr)
    b.raw = a
    b.arr_id = id(arr)
    n = int(np.prod(b.dims)) if all(d > 0 for d in b.dims) else None
    if a.ndim != 2:
        b.problems.append(("shape", f"array ndim {a.ndim}"))
        return
    if a.shape[1] == 1 and not (a.shape[0] == 1 and declared == "M"):
        b.repr_kind = "V"
        v = a[:, 0].astype(complex)
        if n is not None and a.shape[0] != n:
            b.problems.append(("shape", f"vector length {a.shape[0]} != prod dims {b.dims}"))
        nrm = np.linalg.norm(v)
        if not np.isfinite(nrm) or abs(nrm - 1) > 1e-8:
            b.problems.append(("vector-norm", f"norm={nrm:.9f}"))
        b.rho = np.outer(v, v.conj())
    elif a.shape[0] == a.shape[1]:
        b.repr_kind = "M"
        if n is not None and a.shape[0] != n:
            b.problems.append(("shape", f"matrix side {a.shape[0]} != prod dims {b.dims}"))
        b.rho = a.astype(complex)
        _psd_problems(b.rho, b.problems)
    else:
        b.problems.append(("shape", f"array shape {a.shape}"))
        return
    if declared is not None and declared != b.repr_kind:
        b.problems.append(("level-kind", f"declared {declared}, data looks like {b.repr_kind}"))


class Obs:
    def __init__(self, world):
        self.world = world
        self.blocks = []
        self.place = {}       # sub role -> [block idx]
        self.sub = {}         # sub role -> info dict
        self.env = {}         # env role -> info dict
        self.containers = []  # dicts
        self.handle_container = {}  # handle role -> container idx or None
        self.registry_problems = []
        self._observe()

    # ------------------------------------------------------------------
    def _observe(self):
        w = self.world
        O = w.objs
        role = w.role
        for s in w.subsystems():
            self.place[s] = []
        # ---------- subsystems
        for s in w.subsystems():
            o = O[s]
            k = w.kinds[s]
            info = {}
            info["measured"] = bool(getattr(o, "measured", False)) if k != "Q" else False
            idx = o._index if k == "Q" else o.index
            info["index"] = tuple(idx) if isinstance(idx, (tuple, list)) else idx
            info["level"] = lvl(o.expansion_level)
            info["dims"] = int(o.dimensions)
            st = o.state
            info["has_state"] = st is not None
            info["envelope"] = role(o.envelope) if k != "Q" and getattr(o, "envelope", None) is not None else None
            ce = getattr(o, "composite_envelope", None)
            info["ce"] = ce
            self.sub[s] = info
            if st is not None:
                b = Block("own", s)
                b.members = [s]
                b.level = info["level"]
                d = info["dims"]
                if isinstance(st, E.PolarizationLabel):
                    b.repr_kind = "L"
                    b.raw = ("label", st.value)
                    b.dims = [2]
                    v = POLVEC[st.value]
                    b.rho = np.outer(v, v.conj())
                    if k != "P":
                        b.problems.append(("label-range", "polarization label on non-polarization"))
                elif isinstance(st, (int, np.integer)) and not isinstance(st, bool):
                    b.repr_kind = "L"
                    n = int(st)
                    b.raw = ("label", n)
                    if k == "P":
                        b.problems.append(("label-range", f"integer label {n} on polarization"))
                        d_eff = 2
                    elif d > 0:
                        d_eff = d
                        if n < 0 or n >= d:
                            b.problems.append(("label-range", f"label {n} outside 0..{d - 1}"))
                            d_eff = max(d, n + 1)
                    else:
                        d_eff = n + 1
                        if n < 0:
                            b.problems.append(("label-range", f"negative label {n}"))
                            d_eff = 1
                    b.dims = [d_eff]
                    v = np.zeros(d_eff, dtype=complex)
                    if 0 <= n < d_eff:
                        v[n] = 1
                    b.rho = np.outer(v, v.conj())
                else:
                    b.dims = [d]
                    try:
                        _array_block(b, st, b.level)
                    except Exception as ex:
                        b.problems.append(("shape", f"unreadable state {type(st).__name__}: {ex}"))
                if b.level is not None and b.repr_kind is not None and b.level != b.repr_kind and not any(
                        p[0] == "level-kind" for p in b.problems):
                    b.problems.append(("level-kind", f"declared {b.level}, data looks like {b.repr_kind}"))
                if b.level is None:
                    b.problems.append(("level-kind", "holds a state but reports no expansion level"))
                self.place[s].append(len(self.blocks))
                self.blocks.append(b)
        # ---------- envelopes
        for e in w.envelopes():
            o = O[e]
            info = {"measured": bool(o.measured), "has_state": o.state is not None,
                    "level": lvl(o._expansion_level), "ce_id": o.composite_envelope_id}
            self.env[e] = info
            if o.state is not None:
                b = Block("env", e)
                f, p = e + ".f", e + ".p"
                fi, pi = self.sub[f]["index"], self.sub[p]["index"]
                if isinstance(fi, int) and isinstance(pi, int) and {fi, pi} == {0, 1}:
                    b.members = [f, p] if fi == 0 else [p, f]
                else:
                    b.members = [f, p]
                    b.problems.append(("index", f"combined envelope but member indices are {fi!r},{pi!r}"))
                b.level = info["level"]
                b.dims = [self.sub[m]["dims"] for m in b.members]
                try:
                    _array_block(b, o.state, b.level)
                except Exception as ex:
                    b.problems.append(("shape", f"unreadable envelope state: {ex}"))
                for m in b.members:
                    if self.sub[m]["level"] != b.level:
                        b.problems.append(("member-level", f"{m} reports {self.sub[m]['level']}, block is {b.level}"))
                    self.place[m].append(len(self.blocks))
                self.blocks.append(b)
        # ---------- containers
        cont_by_id = {}

        def reg_container(c):
            if id(c) in cont_by_id:
                return cont_by_id[id(c)]
            ci = len(self.containers)
            cont_by_id[id(c)] = ci
            self.containers.append({"obj": c, "handles": [], "envelopes": [], "state_objs": [], "blocks": [],
                                    "ps_container_ok": [], "ps_ids": [], "uid": c.composite_uid})
            return ci

        for h in w.handles():
            ho = O[h]
            c = w.containers.get(ho.uid)
            if c is None:
                self.registry_problems.append(f"handle {h}: uid not in _containers")
                self.handle_container[h] = None
                continue
            ci = reg_container(c)
            self.containers[ci]["handles"].append(h)
            self.handle_container[h] = ci
            inst = w.instances.get(ho.uid)
            if not inst:
                self.registry_problems.append(f"handle {h}: uid not in _instances")
        for e in w.envelopes():
            cid = self.env[e]["ce_id"]
            if cid is not None:
                c = w.containers.get(cid)
                if c is None:
                    self.registry_problems.append(f"envelope {e}: composite_envelope_id not in _containers")
                    self.env[e]["container"] = None
                else:
                    self.env[e]["container"] = reg_container(c)
                if not w.instances.get(cid):
                    self.registry_problems.append(f"envelope {e}: composite_envelope_id not in _instances")
            else:
                self.env[e]["container"] = None
        for s in w.subsystems():
            ce = self.sub[s]["ce"]
            if ce is not None:
                c = w.containers.get(getattr(ce, "uid", None))
                if c is None:
                    self.registry_problems.append(f"subsystem {s}: composite_envelope uid not in _containers")
                    self.sub[s]["container"] = None
                else:
                    self.sub[s]["container"] = reg_container(c)
            else:
                self.sub[s]["container"] = None
            del self.sub[s]["ce"]
        ci = 0
        seen_ps = {}
        while ci < len(self.containers):
            cd = self.containers[ci]
            c = cd["obj"]
            inst = w.instances.get(c.composite_uid)
            cd["uid_handle"] = role(inst[0]) if inst else None
            cd["envelopes"] = [role(x) for x in c.envelopes]
            cd["state_objs"] = [role(x) for x in c.state_objs]
            for pi, ps in enumerate(c.states):
                if id(ps) in seen_ps:
                    # the same ProductState object listed by two containers (stale pointer): one block only
                    self.registry_problems.append(
                        f"product space {seen_ps[id(ps)]} is also listed by container c{ci}")
                    cd["ps_ids"].append(id(ps))
                    cd["ps_container_ok"].append(ps.container is c)
                    continue
                seen_ps[id(ps)] = f"c{ci}#{pi}"
                b = Block("ps", f"c{ci}#{pi}")
                b.members = [role(x) for x in ps.state_objs]
                b.level = lvl(ps.expansion_level)
                b.dims = [self.sub[m]["dims"] if m in self.sub else -1 for m in b.members]
                try:
                    _array_block(b, ps.state, b.level)
                except Exception as ex:
                    b.problems.append(("shape", f"unreadable product state: {ex}"))
                for m in b.members:
                    if m in self.sub:
                        if self.sub[m]["level"] != b.level:
                            b.problems.append(
                                ("member-level", f"{m} reports {self.sub[m]['level']}, block is {b.level}"))
                        self.place[m].append(len(self.blocks))
                cd["blocks"].append(len(self.blocks))
                cd["ps_container_ok"].append(ps.container is c)
                cd["ps_ids"].append(id(ps))
                if ps.container is not c:
                    reg_container(ps.container)
                self.blocks.append(b)
            ci += 1

    # ------------------------------------------------------------------ derived views
    def live_subs(self):
        return [s for s in self.sub if not self.sub[s]["measured"]]

    def partition(self):
        """frozenset of (kind, tuple(members in order)) for every block."""
        return [(b.kind, tuple(b.members)) for b in self.blocks]

    def block_of(self, s):
        pl = self.place.get(s, [])
        return self.blocks[pl[0]] if len(pl) == 1 else None

    def location(self, s):
        pl = self.place.get(s, [])
        if len(pl) == 0:
            return "none"
        if len(pl) > 1:
            return "multi"
        return self.blocks[pl[0]].kind

    def c07_problems(self):
        out = []
        for b in self.blocks:
            for cl, txt in b.problems:
                if cl != "index":
                    out.append((cl, f"{b.kind}:{b.holder}[{','.join(b.members)}] {txt}"))
        return out

    def joint(self, names, dims):
        """Joint density matrix over `names` (canonical order) with reference `dims`.
        Returns (rho, None) or (None, reason)."""
        used = []
        for s in names:
            pl = self.place.get(s, [])
            if len(pl) != 1:
                return None, f"{s} stored in {len(pl)} places"
            if pl[0] not in used:
                used.append(pl[0])
        order = []
        total = np.array([[1.0 + 0j]])
        for bi in used:
            b = self.blocks[bi]
            if b.rho is None:
                return None, f"block {b.holder} unreadable"
            for m in b.members:
                if m not in names:
                    return None, f"block {b.holder} contains {m} which is not live in the reference"
            bd = list(b.dims)
            n = int(np.prod(bd))
            if b.rho.shape != (n, n):
                return None, f"block {b.holder} shape {b.rho.shape} vs dims {bd}"
            k = len(bd)
            t = b.rho.reshape(bd + bd)
            for i, m in enumerate(b.members):
                tgt = dims[m]
                if tgt > bd[i]:
                    pad = [(0, 0)] * (2 * k)
                    pad[i] = (0, tgt - bd[i])
                    pad[i + k] = (0, tgt - bd[i])
                    t = np.pad(t, pad)
                elif tgt < bd[i]:
                    sl_hi = [slice(None)] * (2 * k)
                    sl_hi[i] = slice(tgt, None)
                    sl_hi[i + k] = slice(tgt, None)
                    if np.max(np.abs(t[tuple(sl_hi)]), initial=0.0) > 1e-9:
                        return None, f"overflow: {m} has population beyond reference cut-off {tgt}"
                    sl = [slice(None)] * (2 * k)
                    sl[i] = slice(0, tgt)
                    sl[i + k] = slice(0, tgt)
                    t = t[tuple(sl)]
            nn = int(np.prod([dims[m] for m in b.members]))
            total = np.kron(total, t.reshape(nn, nn))
            order.extend(b.members)
        if sorted(order) != sorted(names):
            return None, f"blocks cover {order}, expected {names}"
        k = len(names)
        d = [dims[m] for m in order]
        t = total.reshape(d + d)
        perm = [order.index(s) for s in names]
        t = np.transpose(t, perm + [p + k for p in perm])
        n = int(np.prod([dims[s] for s in names]))
        return t.reshape(n, n), None

    # ------------------------------------------------------------------ canonical key
    def canon(self, extra=None):
        w = self.world
        h = hashlib.blake2b(digest_size=16)

        def put(*xs):
            for x in xs:
                if isinstance(x, np.ndarray):
                    h.update(str(x.dtype).encode() + str(x.shape).encode())
                    h.update(np.ascontiguousarray(x).tobytes())
                else:
                    h.update(repr(x).encode())
                h.update(b"|")

        cname = {}
        for ci, cd in enumerate(self.containers):
            cname[ci] = "C(" + ",".join(sorted(cd["handles"])) + f")#{ci}"
        put("contraction", w.contraction)
        put("enum", sorted((k, [getattr(t, "__name__", t) for t in v]) for k, v in w.enum_types.items()))
        for s in sorted(self.sub):
            i = self.sub[s]
            put("sub", s, i["measured"], i["index"], i["level"], i["dims"], i["has_state"], i["envelope"],
                cname.get(i["container"]))
        for e in sorted(self.env):
            i = self.env[e]
            put("env", e, i["measured"], i["has_state"], i["level"], cname.get(i.get("container")),
                i["ce_id"] is not None)
        for b in self.blocks:
            put("block", b.kind, b.holder, tuple(b.members), b.level, tuple(b.dims))
            if isinstance(b.raw, np.ndarray):
                put(b.raw)
            else:
                put(b.raw)
        for ci, cd in enumerate(self.containers):
            put("cont", cname[ci], tuple(cd["envelopes"]), tuple(cd["state_objs"]), tuple(cd["blocks"]),
                tuple(cd["ps_container_ok"]), cd.get("uid_handle"))
        put("handles", sorted((hh, cname.get(c)) for hh, c in self.handle_container.items()))
        put("reg", sorted(self.registry_problems))
        if extra is not None:
            put("extra", extra)
        return h.hexdigest()

    def layout_key(self):
        """Coarse layout descriptor (coverage metric only)."""
        return tuple(sorted((b.kind, tuple(b.members), b.level) for b in self.blocks))
