"""Plain replayer: rebuilds the world of a replay file, executes the history with the
recorded forced outcomes through the public API (no explorer, no workers), re-evaluates
the monitors on the last step and prints REPRODUCED / NOT-REPRODUCED."""
import json
import sys


def find_world(name):
    from . import specs
    for attr in dir(specs):
        v = getattr(specs, attr)
        if isinstance(v, list) and v and isinstance(v[0], tuple) and len(v[0]) == 2 and isinstance(v[0][0], str):
            for n, w in v:
                if n == name:
                    return w
    raise KeyError(name)


def find_world_in_specs(prop, name):
    """Worlds are defined by the check specifications (both tiers are searched)."""
    from . import specs
    for tier in ("quick", "thorough"):
        try:
            sp = specs.get(prop, tier, 0)
        except Exception:
            continue
        for w in sp["worlds"]:
            if w[0] == name:
                return w[1]
    return find_world(name)


def replay_doc(doc, verbose=True):
    from .explorer import build, run_leaves, make_transition
    from .judge import judge
    from .observe import Obs

    if doc.get("engine") == "C10auto":
        from . import c10auto
        inp, loc, lvl, kind, par = doc["program"]
        r = c10auto._case((inp, loc, lvl, kind, complex(par)))
        if verbose:
            print("case:", doc["program"], "->", r["viol"], "dims", r["dims"], "fidelity", r["fid"])
        ok = r["viol"] is not None and (r["viol"][0] == doc["signature"]["clause"])
        return ok, [], None
    if doc.get("engine") and doc["engine"] != "explorer":
        from . import standalone
        return standalone.replay(doc, verbose)
    wspec = doc.get("world_spec") or find_world_in_specs(doc["property"], doc["world"])
    hist = doc["history"]
    D = doc.get("D", 6)
    w0, m0 = build(wspec, hist[:-1], D)
    o0 = Obs(w0)
    a, script = hist[-1][0], hist[-1][1]
    w1 = w0.clone()
    res = w1.apply(a, script)
    if doc.get("fault"):
        from .explorer import make_fault_transition
        from .faults import judge_fault
        T = make_fault_transition(w0, m0, o0, o0.canon(), a, script, res, w1)
        V = judge_fault(T, {"D": D})
    else:
        T = make_transition(w0, m0, o0, o0.canon(), a, script, res, w1)
        V = judge(T)
    want = doc["signature"]
    hit = [v for v in V if v["sig"] == want]
    if verbose:
        print("step:", json.dumps(a), "script", script, "->", res.symptom(), repr(res.value)[:200])
        for v in V:
            print("  violation:", v["sig"]["property"], v["sig"]["clause"], v["sig"]["symptom"], "|", v["detail"])
    return bool(hit), V, (w0, m0, o0, w1, T)


def replay_file(path):
    doc = json.load(open(path))
    ok1, _, _ = replay_doc(doc, verbose=True)
    ok2, _, _ = replay_doc(doc, verbose=False)
    if ok1 and ok2:
        print("REPRODUCED", doc["property"], doc["signature"]["clause"])
        return 1
    print("NOT-REPRODUCED")
    return 0
