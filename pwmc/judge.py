"""Monitors: every clause of the stateful properties, evaluated on one transition.

A transition is (model before, observation before, action, result, model after,
observation after).  `judge` returns a list of violation dicts; each names the property
and clause that own it (attribution rule of DESIGN §4).
"""
import numpy as np

from .world import POL1, FOCK1, CUST1, COMP

TOL = 1e-6
PTOL = 1e-6
TOL_TRUNC = 5e-3   # |delta rho| allowed for Displace / Squeeze: state fidelity 1-1e-5 <=> entries off by up to ~3e-3
IDENTITY_OPS = ("I", "FIdentity", "XID")
IDENT_CHANNELS = ("ident",)


def action_targets(a):
    k = a[0]
    if k in ("op", "kraus", "measure", "povm", "trace_out"):
        t = list(a[2])
        if k == "measure" and not t and a[1].startswith("env:"):
            e = a[1].split(":")[1]
            t = [e + ".f", e + ".p"]
        return t
    if k in ("expand", "contract"):
        if a[1].startswith("env:"):
            e = a[1].split(":")[1]
            return [e + ".f", e + ".p"]
        return list(a[2])
    if k in ("env_combine",):
        return [a[1] + ".f", a[1] + ".p"]
    if k == "env_reorder":
        return [a[1] + ".f", a[1] + ".p"]
    if k in ("ce_combine", "ce_reorder"):
        return list(a[2])
    if k == "resize":
        return [a[2]]
    if k == "slot_apply":
        return list(a[3])
    return []


def action_name(a):
    k = a[0]
    if k == "op":
        return a[3]
    if k == "kraus":
        return a[3]
    if k == "povm":
        return f"{a[3]},destr={int(a[4])},partial={int(a[5])}"
    if k == "measure":
        return f"sep={int(a[3])},destr={int(a[4])}"
    if k == "contract":
        return f"final={a[3]}"
    if k == "resize":
        return "resize"
    return k


def entry_kind(a):
    k = a[0]
    if k in ("op", "kraus", "measure", "povm", "trace_out", "expand", "contract", "resize"):
        return a[1].split(":")[0]
    if k.startswith("env_"):
        return "env"
    if k.startswith("ce_"):
        return "ce"
    if k == "slot_apply":
        return a[2].split(":")[0]
    return "-"


def signature(prop, clause, a, o0, contraction, symptom):
    t = action_targets(a)
    locs = sorted(set(o0.location(s) for s in t)) if o0 is not None else []
    lv = sorted(set((o0.block_of(s).level or "?") if o0.block_of(s) is not None else "-" for s in t)) if o0 is not None else []
    kinds = "".join(s.split(".")[-1].upper() if "." in s else "Q" for s in t)
    return {
        "property": prop, "clause": clause, "kind": a[0], "name": action_name(a), "entry": entry_kind(a),
        "tkinds": kinds, "loc": "+".join(locs), "level": "".join(lv),
        "contraction": bool(contraction), "symptom": symptom,
    }


def _viol(prop, clause, T, symptom, detail):
    return {"sig": signature(prop, clause, T.a, T.o0, T.m0.contraction if T.m0 else True, symptom),
            "detail": detail}


def _cmp(rho_a, rho_b):
    return float(np.max(np.abs(rho_a - rho_b))) if rho_a.size else 0.0


# ---------------------------------------------------------------------------------------
# invariants on one observation


def c13_problems(o, model):
    """Bookkeeping predicate (C13) -> list of (clause, text)."""
    out = []
    for s, info in o.sub.items():
        n = len(o.place.get(s, []))
        if info["measured"]:
            if n != 0:
                out.append(("one-place", f"destroyed {s} still stored in {n} block(s)"))
            continue
        if n != 1:
            out.append(("one-place", f"{s} stored in {n} places"))
            continue
        b = o.blocks[o.place[s][0]]
        if b.kind == "own":
            if info["index"] is not None:
                out.append(("index", f"{s} holds its own state but index={info['index']!r}"))
        elif b.kind == "env":
            if info["index"] != b.members.index(s):
                out.append(("index", f"{s} in envelope block at {b.members.index(s)} but index={info['index']!r}"))
        else:
            ci = int(b.holder[1:].split("#")[0])
            pi = int(b.holder.split("#")[1])
            want = (pi, b.members.index(s))
            if info["index"] != want:
                out.append(("index", f"{s} in product space {want} but index={info['index']!r}"))
            if info.get("container") != ci:
                out.append(("backptr-sub", f"{s} stored in container c{ci} but composite_envelope -> {info.get('container')}"))
    for b in o.blocks:
        for cl, txt in b.problems:
            if cl == "index":
                out.append(("index", txt))
    # handles that the model says share a container
    groups = {}
    for h, mem in model.members.items():
        groups.setdefault(frozenset(mem), []).append(h)
    for mem, hs in groups.items():
        cs = set(o.handle_container.get(h) for h in hs)
        if len(cs) != 1 or None in cs:
            out.append(("handles-agree", f"handles {sorted(hs)} resolve to containers {sorted(map(str, cs))}"))
            continue
        ci = cs.pop()
        cd = o.containers[ci]
        # members seen through the handle
        seen = set(cd["state_objs"])
        live_mem = set(s for s in mem)
        if not live_mem <= seen | set(s for s in mem if o.sub[s]["measured"]):
            out.append(("handles-agree", f"handles {sorted(hs)}: state_objs {sorted(seen)} miss {sorted(live_mem - seen)}"))
        for s in mem:
            e = s.split(".")[0] if "." in s else None
            if e is not None and not o.env[e]["measured"] and not model.env_retired.get(e, False):
                if o.env[e].get("container") != ci:
                    out.append(("backptr-env", f"envelope {e} is a member of c{ci} but points to {o.env[e].get('container')}"))
    for ci, cd in enumerate(o.containers):
        if len(set(cd["ps_ids"])) != len(cd["ps_ids"]):
            out.append(("no-dup-empty", f"container c{ci} lists a product space twice"))
        for bi in cd["blocks"]:
            if len(o.blocks[bi].members) == 0:
                out.append(("no-dup-empty", f"container c{ci} keeps an empty product space"))
        if not all(cd["ps_container_ok"]):
            out.append(("ps-container", f"container c{ci}: product space .container is another container"))
        if len(set(cd["envelopes"])) != len(cd["envelopes"]):
            out.append(("no-dup-empty", f"container c{ci} lists an envelope twice: {cd['envelopes']}"))
        if len(set(cd["state_objs"])) != len(cd["state_objs"]):
            out.append(("no-dup-empty", f"container c{ci} lists a subsystem twice: {cd['state_objs']}"))
        if cd["handles"] and cd.get("uid_handle") is None:
            out.append(("registry", f"container c{ci}: composite_uid does not resolve to a handle"))
        elif cd["handles"] and cd.get("uid_handle") not in cd["handles"]:
            out.append(("registry", f"container c{ci}: composite_uid resolves to {cd.get('uid_handle')}, not one of {cd['handles']}"))
    for r in o.registry_problems:
        out.append(("registry", r))
    return out


def c20_problems(a, o0, o1, S):
    """Partition rules (C20) -> list of (clause, text)."""
    out = []
    before = [(b.kind, tuple(b.members), b.level, b.raw, b.arr_id) for b in o0.blocks]
    after = [(b.kind, tuple(b.members), b.level, b.raw, b.arr_id) for b in o1.blocks]
    Sset = set(S)
    BS = [b for b in before if Sset & set(b[1])]
    U = set()
    for b in BS:
        U |= set(b[1])
    U |= Sset
    kind = a[0]
    # (1) no over-merge
    for b in after:
        mem = set(b[1])
        if mem & U and not mem <= U:
            out.append(("no-overmerge", f"block {b[1]} mixes addressed blocks {sorted(U)} with bystanders {sorted(mem - U)}"))
    # (2) joined when needed
    if kind in ("op", "kraus", "povm", "ce_combine", "trace_out") and len(S) >= 2:
        alive = [s for s in S if not o1.sub[s]["measured"]]
        if kind == "povm" and a[4]:
            alive = []
        if len(alive) >= 2:
            homes = set(tuple(o1.place.get(s, [])) for s in alive)
            if len(homes) != 1 or any(len(h) != 1 for h in homes):
                out.append(("joined", f"operands {alive} do not share one block afterwards"))
    # (3) single-subsystem action never enlarges
    if len(S) == 1 and kind in ("op", "kraus", "povm", "measure", "expand", "contract", "resize", "trace_out"):
        s = S[0]
        size0 = max([len(b[1]) for b in before if s in b[1]] + [1])
        for b in after:
            if len(b[1]) > size0 and (set(b[1]) & U):
                out.append(("single-no-enlarge", f"block {b[1]} larger than the block that held {s} before ({size0})"))
    # (5) bystanders bit-identical
    for b in before:
        if set(b[1]) & U:
            continue
        match = [x for x in after if x[0] == b[0] and x[1] == b[1]]
        if not match:
            out.append(("bystander-bits", f"bystander block {b[0]}:{b[1]} disappeared / changed members or order"))
            continue
        x = match[0]
        if x[2] != b[2]:
            out.append(("bystander-bits", f"bystander block {b[1]} changed level {b[2]}->{x[2]}"))
        elif isinstance(b[3], np.ndarray):
            if not (isinstance(x[3], np.ndarray) and x[3].shape == b[3].shape and x[3].dtype == b[3].dtype
                    and x[3].tobytes() == b[3].tobytes()):
                out.append(("bystander-bits", f"bystander block {b[1]} amplitudes rewritten"))
        elif x[3] != b[3]:
            out.append(("bystander-bits", f"bystander block {b[1]} label changed"))
    return out


# ---------------------------------------------------------------------------------------


class Transition:
    __slots__ = ("a", "script", "res", "m0", "m1", "o0", "o1", "exp", "w0dims", "tree", "canon0", "canon1", "prop")

    def __init__(self, **kw):
        for k in self.__slots__:
            setattr(self, k, kw.get(k))


def _owner_raise(a):
    k = a[0]
    if k == "op":
        if a[3] in IDENTITY_OPS:
            return "C02", "raise"
        return ("C03", "raise") if a[3] in COMP else ("C01", "raise")
    if k == "kraus":
        return ("C02", "raise") if a[3] in IDENT_CHANNELS else ("C06", "raise")
    if k == "measure":
        return "C05", "raise"
    if k == "povm":
        return ("C02", "raise") if a[3] == "ident" else ("C09", "raise")
    if k == "resize":
        return "C10", "raise"
    if k == "slot_apply":
        return "C15", "raise"
    return "C02", "raise"


def _owner_map(a):
    k = a[0]
    if k == "op":
        if a[3] in IDENTITY_OPS:
            return "C02", "auto"
        return ("C03", "map") if a[3] in COMP else ("C01", "map")
    if k == "kraus":
        return ("C02", "auto") if a[3] in IDENT_CHANNELS else ("C06", "map")
    if k == "measure":
        return "C05", "post"
    if k == "povm":
        return ("C02", "auto") if a[3] == "ident" else ("C09", "post")
    if k == "resize":
        return "C10", "state"
    return "C02", "invariant"


def returned_to_rho(val, dims):
    """Interpret a trace_out return value by its own shape."""
    kind = val[0]
    n = int(np.prod(dims))
    if kind == "label":
        v = np.zeros(n, dtype=complex)
        if not (0 <= val[1] < n):
            return None
        v[val[1]] = 1
        return np.outer(v, v.conj())
    if kind == "plabel":
        from .observe import POLVEC
        v = POLVEC[val[1]]
        return np.outer(v, v.conj())
    if kind == "array":
        a = np.asarray(val[1])
        if a.ndim == 2 and a.shape == (n, 1):
            v = a[:, 0].astype(complex)
            return np.outer(v, v.conj())
        if a.ndim == 2 and a.shape == (n, n):
            return a.astype(complex)
    return None


def pad_rho(rho, dims_from, dims_to):
    k = len(dims_from)
    t = rho.reshape(list(dims_from) + list(dims_from))
    pad = []
    sl = []
    for i in range(2 * k):
        f, to = dims_from[i % k], dims_to[i % k]
        pad.append((0, max(0, to - f)))
        sl.append(slice(0, to))
    t = np.pad(t, pad)[tuple(sl)]
    n = int(np.prod(dims_to))
    return t.reshape(n, n)


def judge(T):
    """All generic clauses for one executed transition.  Returns list of violations."""
    V = []
    a, res, m0, m1, o0, o1 = T.a, T.res, T.m0, T.m1, T.o0, T.o1
    kind = a[0]
    # ------------------------------------------------------------------ valid request raised
    if not res.ok:
        prop, clause = _owner_raise(a)
        V.append(_viol(prop, clause, T, res.symptom(), res.exc_msg))
        return V
    if o1 is None:
        return V
    ref = m1.ref
    # ------------------------------------------------------------------ retirement bookkeeping vs reference
    live_impl = set(o1.live_subs())
    live_ref = set(ref.names)
    if kind in ("measure", "povm"):
        V.extend(_judge_measurement(T))
        if any(v["sig"]["clause"] in ("keys", "retire", "nd") for v in V):
            # the partition rules are structural and stay meaningful even when the wrong set was measured
            S_ = action_targets(a)
            if kind == "measure":
                spec_sets = T.exp.get("measured_sets") or [S_]
                S_ = sorted(set(S_) | set(x for st in spec_sets for x in st if x in o0.sub))
            for cl, txt in c20_problems(a, o0, o1, S_):
                V.append(_viol("C20", cl, T, cl, txt))
            return V
    if live_impl != live_ref:
        prop = "C05" if kind in ("measure",) else ("C09" if kind == "povm" else _owner_map(a)[0])
        V.append(_viol(prop, "retire", T, "wrong-destroyed-set",
                       f"live in implementation {sorted(live_impl)} vs specified {sorted(live_ref)}"))
        return V
    # ------------------------------------------------------------------ joint state
    names = list(ref.names)
    rho, why = o1.joint(names, ref.dims)
    if rho is None:
        if why.startswith("overflow"):
            T.exp["overflow"] = True
        elif "places" in why:
            V.append(_viol("C13", "one-place", T, "not-one-place", why))
        else:
            V.append(_viol("C07", "shape", T, "unreadable", why))
    else:
        d = _cmp(rho, ref.rho)
        tol_here = TOL
        if kind == "op" and a[3] in ("Displace", "Squeeze"):
            tol_here = TOL_TRUNC      # judged against the documented truncation threshold (C10), not exactly
        if d > tol_here:
            prop, clause = _owner_map(a)
            # classify the mismatch a bit: normalisation only?
            tr = float(np.trace(rho).real)
            sym = "mismatch"
            if abs(tr - 1) > TOL and tr > 0 and _cmp(rho / tr, ref.rho) <= TOL:
                sym = "mismatch-trace-only"
            V.append(_viol(prop, clause, T, sym, f"max|rho_impl-rho_ref|={d:.3e} trace_impl={tr:.6f}"))
            if kind in ("expand", "contract"):
                # a representation change that moves the physical state violates C08 as well as C02
                V.append(_viol("C08", kind, T, sym, f"max|rho_impl-rho_ref|={d:.3e} trace_impl={tr:.6f}"))
    # ------------------------------------------------------------------ C07 / C13 / C20
    for cl, txt in o1.c07_problems():
        prop = "C10" if (kind == "resize" and cl == "shape") else "C07"
        V.append(_viol(prop, "dim-axis" if prop == "C10" else cl, T, cl, txt))
    for cl, txt in c13_problems(o1, m1):
        V.append(_viol("C13", cl, T, cl, txt))
    S = action_targets(a)
    if kind == "measure":
        # the *specified* measured set (largest acceptable reading), not what the implementation chose to measure
        spec_sets = T.exp.get("measured_sets") or [S]
        S = sorted(set(S) | set(x for st in spec_sets for x in st if x in o0.sub))
    if kind == "povm" and isinstance(res.value, tuple) and isinstance(res.value[1], list):
        S = sorted(set(S) | set(s for s, _ in res.value[1] if s in o0.sub))
    if kind not in ("set_contraction", "slot_new"):
        for cl, txt in c20_problems(a, o0, o1, S):
            V.append(_viol("C20", cl, T, cl, txt))
    # ------------------------------------------------------------------ kind specific
    if kind == "trace_out":
        tg = a[2]
        dims_impl = [o1.sub[s]["dims"] for s in tg]
        if any(d <= 0 for d in dims_impl):
            dims_impl = [o1.sub[s]["dims"] if o1.sub[s]["dims"] > 0 else ref.dims[s] for s in tg]
        r = None
        try:
            r = returned_to_rho(res.value, dims_impl) if res.value[0] != "label" or len(tg) != 1 else None
            if res.value[0] == "label" and len(tg) == 1:
                n = res.value[1]
                dd = ref.dims[tg[0]]
                v = np.zeros(dd, dtype=complex)
                if 0 <= n < dd:
                    v[n] = 1
                r = np.outer(v, v.conj())
                dims_impl = [dd]
        except Exception:
            r = None
        if r is None:
            V.append(_viol("C02", "trace", T, "wrong-return-shape",
                           f"returned {res.value[0]} {getattr(res.value[1], 'shape', res.value[1])} for dims {dims_impl}"))
        else:
            rd = [ref.dims[s] for s in tg]
            try:
                rp = pad_rho(r, dims_impl, rd)
                d = _cmp(rp, T.exp["reduced"])
                if d > TOL:
                    V.append(_viol("C02", "trace", T, "wrong-return",
                                   f"max|returned - partial trace|={d:.3e}"))
            except Exception as ex:
                V.append(_viol("C02", "trace", T, "wrong-return-shape", str(ex)))
    if kind == "resize":
        V.extend(_judge_resize(T))
    if kind in ("expand", "contract"):
        V.extend(_judge_repr(T))
    return V


def _judge_repr(T):
    """C08 (a): expand raises the level by exactly one; contract lowers it only if pure / basis."""
    V = []
    a, o0, o1, m1 = T.a, T.o0, T.o1, T.m1
    order = {"L": 0, "V": 1, "M": 2}
    for s in action_targets(a):
        b0, b1 = o0.block_of(s), o1.block_of(s)
        if b0 is None or b1 is None or b0.level not in order or b1.level not in order:
            continue
        l0, l1 = order[b0.level], order[b1.level]
        if a[0] == "expand":
            # an envelope/composite expand acts on the block; a state expand on its block
            if l1 != min(2, l0 + 1):
                V.append(_viol("C08", "expand", T, "wrong-level", f"{s}: level {b0.level}->{b1.level}"))
        else:
            if l1 > l0:
                V.append(_viol("C08", "contract", T, "wrong-level", f"{s}: contract raised level {b0.level}->{b1.level}"))
            if l1 < l0:
                members = b1.members
                pur = m1.ref.purity(list(b0.members))
                if l0 == 2 and pur < 1 - 1e-5:
                    V.append(_viol("C08", "contract", T, "contracted-mixed",
                                   f"{s}: block {b0.members} purity {pur:.6f} contracted {b0.level}->{b1.level}"))
    return V


def _judge_resize(T):
    """C10 (a).  A refusal must leave `state and dimension untouched`: every subsystem keeps its
    dimension and the physical joint state is unchanged (the generic joint-state comparison already
    covers the latter; a physically neutral re-ordering of tensor factors is not a change)."""
    V = []
    a, res, o0, o1 = T.a, T.res, T.o0, T.o1
    _, entry, target, n = a
    d0, d1 = o0.sub[target]["dims"], o1.sub[target]["dims"]
    ok = res.value is True
    if res.value not in (True, False, None):
        ok = bool(res.value)
    dims_changed = [s for s in o0.sub if o0.sub[s]["dims"] != o1.sub[s]["dims"]]
    lvl_changed = [s for s in o0.sub if o0.sub[s]["level"] != o1.sub[s]["level"]]
    if n < 1:
        if ok or dims_changed or lvl_changed:
            V.append(_viol("C10", "down-refuse", T, "bad-size-accepted",
                           f"resize({n}) returned {res.value!r}, dims changed for {dims_changed}"))
        return V
    if d0 > 0 and n > d0:
        if not ok:
            V.append(_viol("C10", "up", T, "up-reported-failure", f"resize {d0}->{n} returned {res.value!r}, dims now {d1}"))
        elif d1 != n:
            V.append(_viol("C10", "up", T, "up-wrong-dims", f"resize {d0}->{n} returned True, dims now {d1}"))
    elif d0 > 0 and n < d0:
        if ok:
            if d1 != n:
                V.append(_viol("C10", "down-ok", T, "down-wrong-dims", f"resize {d0}->{n} returned True, dims now {d1}"))
        else:
            if dims_changed or lvl_changed:
                V.append(_viol("C10", "down-refuse", T, "refused-but-changed",
                               f"resize {d0}->{n} returned {res.value!r} but dims changed for {dims_changed}, levels for {lvl_changed}"))
    elif d0 <= 0:
        # dimension unset (label): a reported failure must not change anything
        if not ok and (dims_changed or lvl_changed):
            V.append(_viol("C10", "down-refuse", T, "refused-but-changed",
                           f"resize unset->{n} returned {res.value!r} but dims changed for {dims_changed}"))
        if ok and d1 != n:
            V.append(_viol("C10", "up", T, "up-wrong-dims", f"resize unset->{n} returned True, dims now {d1}"))
    if set(dims_changed) - {target}:
        V.append(_viol("C10", "dim-axis", T, "other-dims-changed", f"resize of {target} changed dims of {dims_changed}"))
    return V


def _judge_measurement(T):
    V = []
    a, res, m0, m1, o0, o1 = T.a, T.res, T.m0, T.m1, T.o0, T.o1
    kind = a[0]
    calls = res.calls
    # ---- C04 / C09 `dist`: every p handed to the sampler is a distribution
    for i, c in enumerate(calls):
        p = c["p"]
        bad = None
        if p is None:
            bad = "no p"
        elif not np.all(np.isfinite(p)):
            bad = "non-finite p"
        elif np.any(p < -1e-9):
            bad = f"negative p {p.min():.3e}"
        elif abs(p.sum() - 1) > 1e-6:
            bad = f"sum p = {p.sum():.9f}"
        elif c["n"] is not None and len(p) != c["n"]:
            bad = f"len(p)={len(p)} for {c['n']} outcomes"
        if bad:
            V.append(_viol("C04" if kind == "measure" else "C09", "dist", T, "bad-distribution", f"draw {i}: {bad}"))
            return V
    keys_used = [c["key"] for c in calls]
    if len(set(keys_used)) != len(keys_used):
        V.append(_viol("C04" if kind == "measure" else "C09", "dist", T, "key-reused-within-call",
                       f"{len(keys_used) - len(set(keys_used))} of the {len(keys_used)} draws of this call used a key that was already used: "
                       "the outcomes are not independent draws from the conditional distributions"))
    if kind == "measure":
        pairs = res.value
        if not isinstance(pairs, list):
            V.append(_viol("C05", "keys", T, "not-a-dict", repr(pairs)))
            return V
        keys = [s for s, _ in pairs]
        okeys = T.exp["measured_sets"]
        if len(set(keys)) != len(keys) or any(k.startswith("?") for k in keys) or not any(
                set(keys) == set(x) for x in okeys):
            V.append(_viol("C05", "keys", T, "wrong-keys",
                           f"outcome keys {keys}, specified {okeys}"))
            return V
        # C04 joint: product of p along the path vs reference probability of the reported outcomes
        pimpl = 1.0
        for c in calls:
            pimpl *= float(c["p"][c["chosen"]]) if c["p"] is not None else 1.0
        pref = T.exp["p_ref"]
        if abs(pimpl - pref) > PTOL:
            V.append(_viol("C04", "joint", T, "wrong-probability",
                           f"path probability {pimpl:.9f} vs Born {pref:.9f} for outcomes {pairs}"))
        # C05 retire / nd
        destr = a[4]
        for s, v in pairs:
            info = o1.sub[s]
            isq = m0.ref.kinds[s] == "Q"
            if destr and not isq:
                if not info["measured"] or info["has_state"] or len(o1.place.get(s, [])) != 0:
                    V.append(_viol("C05", "retire", T, "not-retired",
                                   f"{s}: measured={info['measured']} has_state={info['has_state']} blocks={len(o1.place.get(s, []))}"))
            else:
                if info["measured"]:
                    V.append(_viol("C05", "nd", T, "destroyed-by-nondestructive", f"{s} flagged measured"))
                elif len(o1.place.get(s, [])) != 1:
                    V.append(_viol("C05", "nd", T, "lost",
                                   f"{s} was measured but must survive, and is now stored in {len(o1.place.get(s, []))} places"))
        for s in o1.sub:
            if s not in keys and o1.sub[s]["measured"] and not o0.sub[s]["measured"]:
                V.append(_viol("C05", "retire", T, "bystander-destroyed", f"{s} destroyed but not in outcome dictionary"))
    else:  # povm
        val = res.value
        if not (isinstance(val, tuple) and len(val) == 2 and isinstance(val[1], list)):
            V.append(_viol("C09", "post", T, "bad-return", repr(val)))
            return V
        if not calls:
            V.append(_viol("C09", "prob", T, "no-draw", "no random draw was made"))
            return V
        p = calls[0]["p"]
        pref = np.array(T.exp["povm_p"])
        if len(p) != len(pref) or np.max(np.abs(p - pref)) > PTOL:
            V.append(_viol("C09", "prob", T, "wrong-probability",
                           f"p_impl={np.round(p, 6).tolist()} vs Tr(M rho M^+)={np.round(pref, 6).tolist()}"))
        if val[0] != calls[0]["chosen"]:
            V.append(_viol("C09", "post", T, "wrong-outcome-returned", f"returned {val[0]} but drew {calls[0]['chosen']}"))
        destr = a[4]
        if not destr:
            for s in o1.sub:
                if o1.sub[s]["measured"] and not o0.sub[s]["measured"]:
                    V.append(_viol("C09", "nd", T, "destroyed-by-nondestructive", f"{s} flagged measured"))
        else:
            for s in a[2]:
                if m0.ref.kinds[s] in "FP" and not o1.sub[s]["measured"]:
                    V.append(_viol("C09", "retire", T, "not-retired", f"{s} survived a destructive POVM"))
    return V


# ---------------------------------------------------------------------------------------
# C11: passive linear optics


def _number_distribution(rho, dims):
    """Distribution of the total photon number of the subsystems of a reduced state."""
    import itertools
    diag = np.real(np.diag(rho)).reshape(dims)
    out = np.zeros(sum(d - 1 for d in dims) + 1)
    for idx in itertools.product(*[range(d) for d in dims]):
        out[sum(idx)] += diag[idx]
    return out


def judge_c11(T):
    V = []
    a, res, o0, o1, m0, m1 = T.a, T.res, T.o0, T.o1, T.m0, T.m1
    if not res.ok or o1 is None:
        if a[0] == "op" and a[3] in ("BS", "PhaseShift"):
            V.append(_viol("C11", "su2", T, res.symptom(), res.exc_msg))
        return V
    if a[0] == "op" and a[3] in ("BS", "PhaseShift"):
        modes = list(a[2])
        names = list(m0.ref.names)
        r0, why0 = o0.joint(names, m0.ref.dims)
        r1, why1 = o1.joint(names, m1.ref.dims)
        if r0 is not None and r1 is not None:
            from .ref import Ref
            def red(rho, model):
                tmp = model.ref.copy()
                tmp.rho = rho
                return tmp.reduced(modes)
            dims = [m0.ref.dims[s] for s in modes]
            n0 = _number_distribution(red(r0, m0), dims)
            n1 = _number_distribution(red(r1, m1), dims)
            d = float(np.max(np.abs(n0 - n1)))
            if d > TOL:
                V.append(_viol("C11", "number", T, "number-not-conserved",
                               f"total photon number distribution of {modes} changed by {d:.3e}: {np.round(n0, 6).tolist()} -> {np.round(n1, 6).tolist()}"))
            d2 = _cmp(r1, m1.ref.rho)
            if d2 > TOL:
                V.append(_viol("C11", "su2", T, "mismatch", f"max|rho_impl-rho_ref|={d2:.3e}"))
    if a[0] == "measure" and "mzi_phi" in getattr(m0, "tags", {}) and not m0.tags.get("mzi_dirty") and res.calls:
        phi = m0.tags["mzi_phi"]
        mode = a[2][0]
        c, s_ = np.cos(phi / 2) ** 2, np.sin(phi / 2) ** 2
        # photon found in the mode that carried the phase shifter with probability sin^2(phi/2)
        exp1 = s_ if mode == m0.tags["mzi_arm"] else c
        p = res.calls[0]["p"]
        got1 = float(p[1]) if len(p) > 1 else 0.0
        pref = m0.ref.populations(mode)
        if abs(pref[1] - exp1) > 1e-9:
            raise AssertionError(f"oracle self-check failed: reference {pref[1]} vs closed form {exp1}")
        if abs(got1 - exp1) > PTOL or abs(float(p[0]) - (1 - exp1)) > PTOL:
            V.append(_viol("C11", "mzi", T, "wrong-probability",
                           f"phi={phi:.6f}: P(1 photon at {mode})={got1:.9f}, expected {exp1:.9f}"))
    return V


EXTRA = {"c11": judge_c11}
