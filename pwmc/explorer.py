"""Explicit-state breadth-first search over action histories of the real library.

state   = history (list of [action, forced-outcome script]) replayed on fresh objects
dedup   = canonical key (exact bytes) of the observed object graph
oracle  = judge.judge on every executed transition (core and probe)
workers = long-lived spawn processes; results merged in canonical order by the master
"""
import json
import multiprocessing as mp
import os
import time
import traceback

import numpy as np

MAX_LEAVES = 64


class HarnessError(Exception):
    pass


class PrefixFailure(Exception):
    """A valid request of a seed world's prefix was rejected by the library."""

    def __init__(self, action, res):
        super().__init__(f"prefix action {action} failed: {res.symptom()}")
        self.action = action
        self.res = res


# ======================================================================================
# single-process primitives (also used by the replayer)


def build(wspec, history, D):
    """Fresh world + model, history replayed.  Returns (world, model) or raises HarnessError
    if the replay diverges from what was recorded."""
    from .model import Model
    from .world import World
    from .env import reset_globals

    reset_globals(contraction=wspec.get("contraction", True))
    w = World.build(wspec)
    m = Model(wspec, D=wspec.get("D", D))
    m.phase_sign = phase_sign()
    npref = len(wspec.get("prefix", []))
    history = [[a, [], "ok"] for a in wspec.get("prefix", [])] + list(history)
    for k_, item in enumerate(history):
        a, script = item[0], item[1]
        dv = DimView(w)
        res = w.apply(a, script)
        if k_ < npref and not res.ok:
            raise PrefixFailure(a, res)
        if len(item) > 2 and item[2] != res.symptom():
            raise HarnessError(f"replay diverged at {a}: recorded {item[2]} now {res.symptom()}")
        got = [c["chosen"] for c in res.calls]
        if list(script) != got:
            raise HarnessError(f"replay diverged at {a}: script {script} vs draws {got}")
        advance_model(m, dv, a, res, dead_after(w))
    return w, m


_PHASE = None


def phase_sign():
    """Ambiguity (ii): calibrate the sign convention of PhaseShift once per process."""
    global _PHASE
    if _PHASE is None:
        from . import env as E
        op = E.Operation(E.FockOperationType.PhaseShift, phi=0.5)
        op._dimensions = [2]
        v = np.asarray(op.operator)[1, 1]
        _PHASE = 1 if abs(v - np.exp(0.5j)) < abs(v - np.exp(-0.5j)) else -1
    return _PHASE


def dead_after(w):
    return set(s for s in w.subsystems() if w.kinds[s] != "Q" and bool(getattr(w.objs[s], "measured", False)))


def advance_model(m, dv, a, res, dead):
    """Advance the reference along an already executed (and accepted) history step."""
    kind = a[0]
    if not res.ok:
        return
    if kind == "measure":
        if isinstance(res.value, list):
            m.apply_measure(a, res.value)
    elif kind == "povm":
        _model_povm(m, dv, a, res, dead)
    elif kind in ("slot_new",):
        pass
    else:
        m.apply(a, dv)


class DimView:
    """What the model needs from the implementation world *before* an action."""

    def __init__(self, world, frozen=None):
        self.world = world
        self.frozen = frozen if frozen is not None else {s: int(world.objs[s].dimensions) for s in world.subsystems()}

    def impl_dims(self, targets):
        return [self.frozen[t] for t in targets]

    def fock_dim(self, r):
        return self.frozen[r]

    def kraus_ops(self, name, targets, params=None):
        from . import optable as OT
        from .world import World
        fake = World.__new__(World)
        fake.impl_dims = self.impl_dims
        return World.kraus_ops(fake, name, targets, params)


def _model_povm(m, dv, a, res, dead):
    """Advance the reference through one POVM leaf; returns expectations.
    Partner fate (ambiguity table): a partner outcome reported in the second return value is
    taken as "the partner was measured projectively"; whether it was destroyed follows the
    implementation (`dead`), the `nd` clause judges non-destructive mode separately."""
    _, entry, targets, name, destr, partial = a
    ks = m.ref_kraus(dv, name, targets)
    probs = m.ref.povm_probability(ks, targets)
    exp = {"povm_p": probs}
    if not res.calls:
        return exp
    i = res.calls[0]["chosen"]
    if i >= len(probs) or probs[i] <= 1e-12:
        exp["dead_branch"] = True
        return exp
    m.ref.povm_branch(ks, targets, i)
    val = res.value
    others = val[1] if isinstance(val, tuple) and len(val) == 2 and isinstance(val[1], list) else []
    assign = {}
    for s, v in others:
        if m.ref.alive(s) and s not in targets:
            assign[s] = v
    if assign:
        exp["others_p"] = m.ref.outcome_probability(assign)
        if exp["others_p"] > 1e-12:
            destroy = [s for s in assign if m.ref.kinds[s] in "FP" and s in dead]
            m.ref.project(assign, destroy)
            for s in destroy:
                e = m.ref.env_of.get(s)
                if e:
                    m.env_retired[e] = True
    if destr:
        for s in targets:
            if m.ref.kinds[s] in "FP" and m.ref.alive(s):
                m.ref.remove(s)
                e = m.ref.env_of.get(s)
                if e:
                    m.env_retired[e] = True
    return exp


def run_leaves(w0, a, max_leaves=MAX_LEAVES):
    """Execute `a` on clones of w0 for every outcome branch.  Returns [(script, res, w1)], capped?"""
    leaves = []
    stack = [[]]
    capped = False
    while stack:
        script = stack.pop()
        w = w0.clone()
        res = w.apply(a, script)
        if res.exc_type == "ActionTimeout" and not (a[0] == "op" and a[3] == "FLowerX"):
            # a slow machine must not look like a livelock: confirm on a fresh clone with a much longer budget
            w = w0.clone()
            res = w.apply(a, script, timeout=300.0)
        got = [c["chosen"] for c in res.calls]
        if got[:len(script)] != list(script):
            raise HarnessError(f"non-deterministic draw sequence for {a}: {script} vs {got}")
        for i in range(len(script), len(res.calls)):
            c = res.calls[i]
            p = c["p"]
            if p is None:
                continue
            n = c["n"] if c["n"] is not None else len(p)
            for j in range(min(n, len(p))):
                if j != c["chosen"] and np.isfinite(p[j]) and p[j] > 1e-12:
                    if len(leaves) + len(stack) < max_leaves:
                        stack.append(got[:i] + [j])
                    else:
                        capped = True
        leaves.append((got, res, w))
    leaves.sort(key=lambda x: x[0])
    return leaves, capped


def make_transition(w0, m0, o0, canon0, a, script, res, w1, prop=None):
    from .judge import Transition
    from .observe import Obs

    dv = DimView(w0)
    exp = {}
    m1 = None
    o1 = None
    kind = a[0]
    if res.ok:
        m1 = m0.copy()
        try:
            if kind == "measure":
                exp["measured_sets"] = m0.measured_sets(a)
                if isinstance(res.value, list):
                    exp["p_ref"] = m1.ref.outcome_probability(
                        {s: v for s, v in res.value if m1.ref.alive(s)}) if len(set(s for s, _ in res.value)) == len(res.value) else -1.0
                    m1.apply_measure(a, res.value)
            elif kind == "povm":
                exp.update(_model_povm(m1, dv, a, res, dead_after(w1)))
            elif kind == "slot_new":
                pass
            else:
                exp.update(m1.apply(a, dv) or {})
        except ZeroDivisionError:
            m1 = m0.copy()
            exp["ref_failed"] = True
        o1 = Obs(w1)
    T = Transition(a=a, script=script, res=res, m0=m0, m1=m1, o0=o0, o1=o1, exp=exp,
                   canon0=canon0, canon1=o1.canon() if o1 is not None else None, prop=prop)
    return T


def state_flags(o, m):
    """Non-triviality of a state: (nonlabel, entangled, mixed, complex)."""
    nonlabel = entangled = mixed = cplx = False
    for b in o.blocks:
        if b.repr_kind in ("V", "M"):
            nonlabel = True
            if isinstance(b.raw, np.ndarray) and np.iscomplexobj(b.raw) and np.max(np.abs(b.raw.imag)) > 1e-9:
                cplx = True
        live = [s for s in b.members if m.ref.alive(s)]
        if live and b.repr_kind in ("V", "M"):
            if m.ref.purity(live) < 1 - 1e-6:
                mixed = True
            if len(live) > 1:
                for s in live:
                    if m.ref.purity([s]) < 1 - 1e-6:
                        entangled = True
    return nonlabel, entangled, mixed, cplx


# ======================================================================================
# worker


_SPEC = None


def _watch_parent():
    """Workers must not outlive a killed master (an orphaned worker may sit in a library livelock)."""
    import threading

    ppid = os.getppid()

    def loop():
        while True:
            time.sleep(2.0)
            if os.getppid() != ppid:
                os._exit(3)
    threading.Thread(target=loop, daemon=True).start()


def _worker_init(spec_name, tier, seed):
    global _SPEC
    _watch_parent()
    from . import specs
    _SPEC = specs.get(spec_name, tier, seed)


def _expand_state(task):
    """task = (world_index, history, do_core) -> result dict"""
    from .judge import judge
    from .observe import Obs

    import signal

    def _alarm(sig, frm):
        raise HarnessError("task watchdog: one state expansion took longer than 600 s")
    signal.signal(signal.SIGALRM, _alarm)
    signal.alarm(600)
    try:
        return _expand_state_inner(task)
    finally:
        signal.alarm(0)


def _expand_state_inner(task):
    from .judge import judge
    from .observe import Obs

    wi, history, do_core = task
    spec = _SPEC
    wspec = spec["worlds"][wi][1]
    out = {"wi": wi, "history": history, "children": [], "violations": [], "n_trans": 0, "n_probe": 0,
           "n_leaves": 0, "capped": 0, "overflow": 0, "poisoned": {}, "flags": None, "layout": None,
           "outcomes": {}, "error": None, "skipped_disabled": 0}
    try:
        w0, m0 = build(wspec, history, spec["D"])
        o0 = Obs(w0)
        canon0 = o0.canon()
        out["flags"] = state_flags(o0, m0)
        out["layout"] = repr(o0.layout_key())
        dv = DimView(w0)
        twin = spec.get("twin")
        w0t = None
        o0t = None
        if twin:
            from . import twin as TW
            wspec_t, hist_t = (TW.flip_contraction if twin == "c08" else TW.distinct_values)(wspec, history)
            w0t, _mt = build(wspec_t, hist_t, spec["D"])
            out.setdefault("twin_compared", 0)
            out.setdefault("twin_skipped", 0)
        plan = []
        for a in spec["probes"](m0, w0, o0):
            plan.append((a, False))
        if do_core:
            for a in spec["core"](m0, w0, o0):
                plan.append((a, True))
        for a, is_core in plan:
            valid = m0.enabled(a, dv, o0)
            fault = spec.get("faults") and not valid and not is_core
            if spec.get("faults") and valid and not is_core and a[0] == "resize" and m0.ref.alive(a[2]) and \
                    a[3] <= m0.ref.max_occupation(a[2]):
                # shrinking below the occupied levels is an invalid request: judged by the C17 oracle in this check
                fault = True
            if twin == "c18" and not valid and not is_core and a[0] in ("op", "kraus", "povm") and a[1].startswith("env:"):
                # an invalid request (operand of another envelope): both twins must reject it alike
                from .judge import _viol, Transition
                wp, wt_ = w0.clone(), w0t.clone()
                rp, rt_ = wp.apply(a, []), wt_.apply(a, [])
                out["n_trans"] += 1
                out["n_probe"] += 1
                out["twin_compared"] += 1
                if rp.ok != rt_.ok:
                    Tf = Transition(a=a, script=[], res=rp, m0=m0, m1=m0, o0=o0, o1=None, exp={}, canon0=canon0)
                    v = _viol("C18", "addressing", Tf, "accepts-differently",
                              f"foreign operand: equal-valued world {rp.symptom()}, distinct-valued twin {rt_.symptom()}")
                    v["witness"] = {"world": spec["worlds"][wi][0], "history": history + [[a, [], rp.symptom()]]}
                    out["violations"].append(v)
                continue
            if not valid and not fault:
                out["skipped_disabled"] += 1
                continue
            leaves, capped = run_leaves(w0, a)
            out["capped"] += int(capped)
            tree_p = 0.0
            leaves_t = None
            if twin == "c08" and not fault:
                if o0t is None:
                    o0t = Obs(w0t)
                if m0.enabled(a, DimView(w0t), o0t):
                    leaves_t, _c = run_leaves(w0t, a)
                else:
                    # the request is not a valid one in the twin's storage layout (e.g. Envelope.contract() on a
                    # vector-level envelope): nothing to compare
                    out["twin_skipped"] += 1
            for script, res, w1 in leaves:
                out["n_trans"] += 1
                out["n_leaves"] += 1
                if not is_core:
                    out["n_probe"] += 1
                if fault:
                    from .faults import judge_fault
                    T = make_fault_transition(w0, m0, o0, canon0, a, script, res, w1)
                    V = judge_fault(T, spec)
                    if not V:
                        from .faults import continuation_c17
                        V = continuation_c17(T, w0, w1, m0)
                else:
                    T = make_transition(w0, m0, o0, canon0, a, script, res, w1, prop=spec["prop"])
                    V = judge(T)
                    for extra in spec.get("extra_judges", []):
                        from .judge import EXTRA
                        V.extend(EXTRA[extra](T))
                    if spec.get("continuation") and res.ok and a[0] == "measure" and not any(
                            v["sig"]["property"] == spec["prop"] for v in V):
                        V.extend(continuation_c05(T, w1, m0))
                    if twin == "c08" and leaves_t is not None:
                        V.extend(TW.compare_c08(T, leaves_t, list(m0.ref.names), m0.ref.dims, Obs))
                        out["twin_compared"] += 1
                    elif twin == "c18":
                        wt = w0t.clone()
                        rt = wt.apply(a, script)
                        usable = all(c["p"] is None or (np.isfinite(c["p"][c["chosen"]]) and c["p"][c["chosen"]] > 1e-12)
                                     for c in rt.calls) and [c["chosen"] for c in rt.calls] == list(script)
                        if usable:
                            V.extend(TW.compare_c18(T, (script, rt, wt), Obs))
                            out["twin_compared"] += 1
                        else:
                            out["twin_skipped"] += 1
                if T.exp.get("overflow"):
                    out["overflow"] += 1
                k = a[0]
                out["outcomes"].setdefault(k, set()).add(res.symptom() + "|" + repr(res.value)[:60] if k in ("measure", "povm", "resize") else res.symptom())
                hist_item = [a, script, res.symptom()]
                if V:
                    for v in V:
                        p = v["sig"]["property"]
                        out["poisoned"][p] = out["poisoned"].get(p, 0) + 1
                        v["witness"] = {"world": spec["worlds"][wi][0], "history": history + [hist_item], "fault": bool(fault)}
                        out["violations"].append(v)
                elif is_core and not fault and res.ok and not T.exp.get("overflow"):
                    out["children"].append((history + [hist_item], T.canon1))
        for k in out["outcomes"]:
            out["outcomes"][k] = sorted(out["outcomes"][k])
    except PrefixFailure as ex:
        # the library rejected a valid request while the seed world was being prepared
        from .judge import _owner_raise, signature
        prop_, clause_ = _owner_raise(ex.action)
        out["violations"].append({"sig": signature(prop_, clause_, ex.action, None, wspec.get("contraction", True), ex.res.symptom()),
                                  "detail": f"seed-world preparation: {ex.res.exc_msg}",
                                  "witness": {"world": spec["worlds"][wi][0], "history": [[ex.action, [], ex.res.symptom()]]}})
        out["poisoned"][prop_] = out["poisoned"].get(prop_, 0) + 1
        out["flags"] = (False, False, False, False)
        out["layout"] = "prefix-failed"
    except HarnessError as ex:
        out["error"] = f"HarnessError: {ex}"
    except Exception as ex:  # noqa: BLE001
        out["error"] = "".join(traceback.format_exception(type(ex), ex, ex.__traceback__))[-3000:]
    return out


def continuation_c05(T, w1, m0):
    """C05 continuation menu after one measurement leaf (each on its own clone of the post-state):
    nd/re-measure : a non-destructively measured subsystem measured again gives the same value, with certainty
    reuse         : an operation / channel / measurement request on a destroyed subsystem raises
    cont          : a survivor that was not measured still accepts a gate (no exception)"""
    from .judge import _viol
    V = []
    a, res = T.a, T.res
    destr = a[4]
    pairs = res.value if isinstance(res.value, list) else []
    for s, v in pairs:
        k = m0.ref.kinds[s]
        if destr and k in "FP":
            reqs = [["op", "state", [s], "X" if k == "P" else "Creation", None],
                    ["kraus", "state", [s], "dephase" if k == "P" else "ident", None],
                    ["measure", "state", [s], True, True]]
            h_ = m0.handle_of(s)
            if h_:
                reqs += [["measure", "ce:" + h_, [s], True, True], ["measure", "ce:" + h_, [s], False, False],
                         ["op", "ce:" + h_, [s], "X" if k == "P" else "Creation", None]]
            for req in reqs:
                w = w1.clone()
                r = w.apply(req, [])
                if r.ok:
                    V.append(_viol("C05", "reuse", T, "accepted-on-destroyed",
                                   f"{req[0]} on destroyed {s} returned {r.value!r} instead of failing"))
        else:
            w = w1.clone()
            r = w.apply(["measure", "state", [s], True, False], [])
            if not r.ok:
                V.append(_viol("C05", "nd", T, "remeasure-" + r.symptom(), f"re-measuring {s} after outcome {v}: {r.exc_msg}"))
            else:
                got = dict((x, y) for x, y in r.value) if isinstance(r.value, list) else {}
                pp = 1.0
                for c in r.calls:
                    pp *= float(c["p"][c["chosen"]]) if c["p"] is not None else 1.0
                alt = any(c["p"] is not None and np.sum(np.asarray(c["p"]) > 1e-9) > 1 for c in r.calls)
                if got.get(s) != v or alt or abs(pp - 1) > 1e-6:
                    V.append(_viol("C05", "nd", T, "remeasure-differs",
                                   f"re-measuring {s} after outcome {v} gave {r.value!r} (path probability {pp:.6f})"))
    measured = set(s for s, _ in pairs)
    others = [s for s in T.m1.ref.names if s not in measured][:2] if T.m1 is not None else []
    for s in others:
        k = m0.ref.kinds[s]
        req = ["op", "state", [s], {"P": "X", "F": "FIdentity", "Q": "QExpr"}[k], None]
        w = w1.clone()
        r = w.apply(req, [])
        if not r.ok:
            V.append(_viol("C05", "cont", T, "survivor-" + r.symptom(), f"{req[3]} on unmeasured {s} after the measurement: {r.exc_msg}"))
    return V


def make_fault_transition(w0, m0, o0, canon0, a, script, res, w1):
    from .judge import Transition
    from .observe import Obs
    o1 = Obs(w1)
    return Transition(a=a, script=script, res=res, m0=m0, m1=m0, o0=o0, o1=o1, exp={},
                      canon0=canon0, canon1=o1.canon())


# ======================================================================================
# master


def explore(spec_name, tier, seed, nproc=None, log=print):
    from . import specs
    spec = specs.get(spec_name, tier, seed)
    depth = spec["depth"]
    t0 = time.time()
    wall_cap = spec.get("wall_cap", 3600)
    state_cap = spec.get("state_cap", 200000)
    nproc = nproc or int(os.environ.get("PWMC_PROCS", min(16, os.cpu_count() or 1)))
    ctx = mp.get_context("spawn")
    stats = {"twin_compared": 0, "twin_skipped": 0, "states": 0, "transitions": 0, "probes": 0, "leaves": 0, "capped": 0, "overflow": 0,
             "per_depth": [], "layouts": set(), "flags": {"nonlabel": 0, "entangled": 0, "mixed": 0, "complex": 0},
             "nontrivial": 0, "poisoned": {}, "outcomes": {}, "skipped_disabled": 0, "exhaustive": True,
             "depth_completed": -1, "caps": []}
    violations = []
    errors = []
    seen = set()
    frontier = []
    pool = ctx.Pool(nproc, initializer=_worker_init, initargs=(spec_name, tier, seed))
    try:
        for wi in range(len(spec["worlds"])):
            frontier.append((wi, []))
        # depth-0 canonical keys are computed by the workers as children of nothing: seed them lazily
        wdepth = [w[2] if len(w) > 2 else depth for w in spec["worlds"]]
        depth = max(wdepth)
        for d in range(depth + 1):
            tasks = [(wi, h, d < wdepth[wi]) for wi, h in frontier if d <= wdepth[wi]]
            results = []
            aborted = False
            for r in pool.imap_unordered(_expand_state, tasks, chunksize=1):
                results.append(r)
                if time.time() - t0 > wall_cap:
                    aborted = True
                    break
            if aborted:
                stats["exhaustive"] = False
                stats["caps"].append(f"wall clock cap {wall_cap}s hit at depth {d} ({len(results)}/{len(tasks)} states expanded)")
                pool.terminate()
            results.sort(key=lambda r: (r["wi"], json.dumps(r["history"], sort_keys=True, default=str)))
            nxt = []
            for r in results:
                if r["error"]:
                    errors.append((r["history"], r["error"]))
                    continue
                stats["states"] += 1
                stats["transitions"] += r["n_trans"]
                stats["probes"] += r["n_probe"]
                stats["leaves"] += r["n_leaves"]
                stats["capped"] += r["capped"]
                stats["overflow"] += r["overflow"]
                stats["skipped_disabled"] += r["skipped_disabled"]
                stats["twin_compared"] += r.get("twin_compared", 0)
                stats["twin_skipped"] += r.get("twin_skipped", 0)
                stats["layouts"].add(r["layout"])
                fl = r["flags"]
                for i, k in enumerate(("nonlabel", "entangled", "mixed", "complex")):
                    stats["flags"][k] += int(fl[i])
                if fl[0] and (fl[1] or fl[2] or fl[3]):
                    stats["nontrivial"] += 1
                for p, c in r["poisoned"].items():
                    stats["poisoned"][p] = stats["poisoned"].get(p, 0) + c
                for k, v in r["outcomes"].items():
                    stats["outcomes"].setdefault(k, set()).update(v)
                violations.extend(r["violations"])
                for h, key in r["children"]:
                    nxt.append((r["wi"], h, key))
            if aborted:
                break
            stats["depth_completed"] = d
            nxt.sort(key=lambda x: (x[0], len(x[1]), json.dumps(x[1], sort_keys=True, default=str)))
            frontier = []
            for wi, h, key in nxt:
                if (wi, key) not in seen:
                    seen.add((wi, key))
                    frontier.append((wi, h))
            stats["per_depth"].append({"depth": d, "expanded": len(results), "new_states": len(frontier)})
            if frontier:
                step = max(1, len(frontier) // 3)
                stats["sample_histories"] = [{"world": spec["worlds"][wi][0], "history": [it[:3] for it in h]}
                                             for wi, h in frontier[::step][:3]]
            log(f"[{spec_name}] depth {d}: expanded {len(results)} states, {stats['transitions']} transitions, "
                f"{len(violations)} violating transitions, next frontier {len(frontier)}  ({time.time() - t0:.0f}s)")
            if stats["states"] + len(frontier) > state_cap and d < depth:
                stats["exhaustive"] = False
                stats["caps"].append(f"state cap {state_cap} hit after depth {d}")
                break
            if not frontier:
                break
    finally:
        pool.terminate()
        pool.join()
    stats["wall_s"] = time.time() - t0
    return spec, stats, violations, errors
