"""Lock-step twin oracles (metamorphic):

C08  contraction on  vs  contraction off (and toggled)  -> same physics, same distributions
C18  equal-valued subsystems  vs  distinct-valued ones  -> same addressing
"""
import numpy as np

from .judge import _viol, _cmp, TOL, PTOL


def flip_contraction(wspec, history):
    w = dict(wspec)
    w["contraction"] = not wspec.get("contraction", True)
    if "prefix" in w:
        w["prefix"] = [(["set_contraction", not a[1]] if a[0] == "set_contraction" else a) for a in w["prefix"]]
    h = []
    for item in history:
        a = item[0]
        if a[0] == "set_contraction":
            a = ["set_contraction", not a[1]]
        # symptoms are not replay-checked on the twin (levels differ, so may the number of draws)
        h.append([a, item[1]])
    return w, h


def distinct_values(wspec, history):
    w = dict(wspec)
    w["init"] = dict(wspec.get("twin_init", {}))
    return w, [[item[0], item[1]] for item in history]


def _path_prob(res):
    p = 1.0
    for c in res.calls:
        if c["p"] is not None:
            p *= float(c["p"][c["chosen"]])
    return p


def compare_c08(T, leaves_t, model_names, model_dims, Obs):
    """T: primary transition (already executed); leaves_t: [(script, res, world)] of the twin for the same action."""
    V = []
    a, res, o1 = T.a, T.res, T.o1
    if a[0] == "set_contraction":
        return V
    key = repr(res.value) if a[0] in ("measure", "povm") else "-"
    match = [(s, r, w) for s, r, w in leaves_t if (repr(r.value) if a[0] in ("measure", "povm") else "-") == key]
    if not match:
        if res.ok:
            V.append(_viol("C08", "neutral-prob", T, "outcome-missing-in-twin",
                           f"outcome {key} has no counterpart under the other contraction setting"))
        return V
    st, rt, wt = match[0]
    if rt.ok != res.ok:
        V.append(_viol("C08", "neutral-state", T, "accepts-differently",
                       f"{res.symptom()} vs {rt.symptom()} under the other contraction setting"))
        return V
    if not res.ok:
        return V
    if a[0] in ("measure", "povm"):
        p0, p1 = _path_prob(res), _path_prob(rt)
        if abs(p0 - p1) > PTOL:
            V.append(_viol("C08", "neutral-prob", T, "probability-differs",
                           f"path probability {p0:.9f} vs {p1:.9f} under the other contraction setting for outcome {key}"))
    ot = Obs(wt)
    names = [s for s in model_names if not o1.sub[s]["measured"]]
    if set(names) != set(s for s in model_names if not ot.sub[s]["measured"]):
        V.append(_viol("C08", "neutral-state", T, "destroyed-set-differs", "different subsystems destroyed in the twin"))
        return V
    r0, w0 = o1.joint(names, model_dims)
    r1, w1 = ot.joint(names, model_dims)
    if r0 is None or r1 is None:
        if (r0 is None) != (r1 is None):
            V.append(_viol("C08", "neutral-state", T, "readable-differs", f"{w0} vs {w1}"))
        return V
    d = _cmp(r0, r1)
    if d > TOL:
        V.append(_viol("C08", "neutral-state", T, "mismatch", f"max|rho_on - rho_off|={d:.3e}"))
    return V


def _addressing(a, res, o):
    keys = None
    if a[0] == "measure" and isinstance(res.value, list):
        keys = [s for s, _ in res.value]
    elif a[0] == "povm" and isinstance(res.value, tuple):
        keys = [s for s, _ in res.value[1]] if isinstance(res.value[1], list) else None
    shape = None
    if a[0] == "trace_out" and res.ok:
        v = res.value
        shape = (v[0], tuple(np.asarray(v[1]).shape) if v[0] == "array" else None)
    part = sorted((b.kind, tuple(sorted(b.members))) for b in o.blocks) if o is not None else None
    dead = sorted(s for s in o.sub if o.sub[s]["measured"]) if o is not None else None
    members = sorted((tuple(sorted(c["handles"])), tuple(sorted(c["state_objs"])), tuple(sorted(c["envelopes"])))
                     for c in o.containers if c["handles"]) if o is not None else None
    return {"ok": res.ok, "keys": keys, "shape": shape, "partition": part, "destroyed": dead, "members": members}


def compare_c18(T, twin_leaf, Obs):
    V = []
    a, res, o1 = T.a, T.res, T.o1
    st, rt, wt = twin_leaf
    A0 = _addressing(a, res, o1)
    At = _addressing(a, rt, Obs(wt) if rt.ok else None)
    if A0["ok"] != At["ok"]:
        V.append(_viol("C18", "addressing", T, "accepts-differently",
                       f"equal-valued world: {res.symptom()}, distinct-valued twin: {rt.symptom()}"))
        return V
    if not res.ok:
        return V
    # (shapes of returned arrays depend on the Fock cut-offs, which legitimately depend on the values: not compared)
    for f in ("keys", "destroyed"):
        if A0[f] != At[f]:
            V.append(_viol("C18", "addressing" if f != "keys" else "one-entry", T, f + "-differ",
                           f"{f}: equal-valued world {A0[f]} vs distinct-valued twin {At[f]}"))
    if A0["members"] != At["members"]:
        V.append(_viol("C18", "addressing", T, "membership-differs",
                       f"composite membership: equal-valued world {A0['members']} vs distinct-valued twin {At['members']}"))
    if A0["partition"] != At["partition"]:
        V.append(_viol("C18", "addressing", T, "partition-differs",
                       f"blocks: equal-valued world {A0['partition']} vs distinct-valued twin {At['partition']}"))
    return V
