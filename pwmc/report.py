"""Known findings, replay files, evidence files, exit status."""
import hashlib
import json
import os
import time

import numpy as np

from .env import VERIF, repo_tree_hash

KF_PATH = os.path.join(VERIF, "known_findings.json")
SIG_FIELDS = ("property", "clause", "kind", "name", "entry", "tkinds", "loc", "level", "contraction", "symptom")


def load_known():
    if not os.path.exists(KF_PATH):
        return []
    data = json.load(open(KF_PATH))
    return [e for e in data.get("findings", [])]


def matches(pattern, sig):
    for f in SIG_FIELDS:
        if f not in pattern:
            continue
        want = pattern[f]
        if want == "*":
            continue
        have = sig.get(f)
        if isinstance(want, list):
            if have not in want:
                return False
        elif isinstance(want, dict) and "prefix" in want:
            if not str(have).startswith(want["prefix"]):
                return False
        elif isinstance(want, dict) and "contains" in want:
            if want["contains"] not in str(have):
                return False
        elif have != want:
            return False
    return True


def sig_hash(sig):
    return hashlib.sha1(json.dumps(sig, sort_keys=True).encode()).hexdigest()[:12]


def _json_default(o):
    if isinstance(o, np.ndarray):
        return {"ndarray": o.tolist() if o.size <= 64 else f"shape={o.shape}"}
    if isinstance(o, (np.integer,)):
        return int(o)
    if isinstance(o, (np.floating,)):
        return float(o)
    if isinstance(o, complex):
        return [o.real, o.imag]
    if isinstance(o, set):
        return sorted(o)
    return repr(o)


def group_violations(violations, prop):
    """Group the run's violations of `prop` by signature; keep the shortest witness."""
    groups = {}
    for v in violations:
        if v["sig"]["property"] != prop:
            continue
        k = json.dumps(v["sig"], sort_keys=True)
        g = groups.get(k)
        cand = (len(v["witness"]["history"]), json.dumps(v["witness"], sort_keys=True, default=_json_default))
        if g is None:
            groups[k] = {"sig": v["sig"], "count": 1, "detail": v["detail"], "witness": v["witness"], "_rank": cand}
        else:
            g["count"] += 1
            if cand < g["_rank"]:
                g["_rank"] = cand
                g["witness"] = v["witness"]
                g["detail"] = v["detail"]
    return [groups[k] for k in sorted(groups)]


def write_replay(prop, g, name=None):
    d = os.path.join(VERIF, "replays", prop)
    os.makedirs(d, exist_ok=True)
    path = os.path.join(d, (name or sig_hash(g["sig"])) + ".json")
    doc = {"property": prop, "clause": g["sig"]["clause"], "signature": g["sig"], "detail": g["detail"],
           "world": g["witness"]["world"], "history": g["witness"]["history"],
           "failing_step": len(g["witness"]["history"]) - 1,
           "harness": {"repo_tree_hash": repo_tree_hash()}}
    for k in ("engine", "program", "extra", "fault"):
        if k in g["witness"]:
            doc[k] = g["witness"][k]
    with open(path, "w") as f:
        json.dump(doc, f, indent=1, default=_json_default)
    return path


def conclude(prop, groups, emit=print):
    """Match against known findings; print KNOWN-FINDING / VIOLATION lines; return (exit_code, known_used, new)."""
    known = load_known()
    used = {}
    new = []
    for g in groups:
        hit = None
        for e in known:
            if e.get("status", "open") != "open":
                continue
            if e["property"] != prop:
                continue
            if matches(e["pattern"], g["sig"]):
                hit = e
                break
        if hit is not None:
            if hit["id"] not in used:
                try:
                    g2 = dict(g)
                    path = write_replay(prop, g2, name="known-" + hit["id"])
                except Exception:  # pragma: no cover - replay artefacts are a convenience
                    pass
            used.setdefault(hit["id"], {"entry": hit, "count": 0, "sigs": 0})
            used[hit["id"]]["count"] += g["count"]
            used[hit["id"]]["sigs"] += 1
        else:
            new.append(g)
    for kid, u in sorted(used.items()):
        emit(f"KNOWN-FINDING: property={prop} {kid}: {u['entry']['what']} "
             f"[{u['count']} transitions, {u['sigs']} signatures]")
    for g in new:
        path = write_replay(prop, g)
        emit(f"VIOLATION property={prop} replay={path}")
        emit(f"   clause={g['sig']['clause']} {g['sig']['kind']}:{g['sig']['name']} entry={g['sig']['entry']} "
             f"targets={g['sig']['tkinds']} loc={g['sig']['loc']} level={g['sig']['level']} "
             f"contraction={g['sig']['contraction']} symptom={g['sig']['symptom']}  x{g['count']}")
        emit(f"   {g['detail']}")
    return (1 if new else 0), used, new


def write_evidence(prop, tier, seed, level, coverage, wall_s, violations, assumptions):
    os.makedirs(os.path.join(VERIF, "evidence"), exist_ok=True)
    doc = {"property_id": prop, "tier": tier, "seed": int(seed), "level": level, "coverage": coverage,
           "assumptions": assumptions, "wall_s": round(float(wall_s), 2), "violations": int(violations)}
    path = os.path.join(VERIF, "evidence", f"{prop}.json")
    tmp = path + ".tmp"
    with open(tmp, "w") as f:
        json.dump(doc, f, indent=1, default=_json_default)
    os.replace(tmp, path)
    return path
