"""Independent operator table (plain numpy / scipy), written from textbook definitions.

Used (a) by the reference model for every operation the explorer issues and (b) as the
oracle of C12.  Nothing here imports photon_weave.
"""
import math

import numpy as np
from scipy.linalg import expm

SQ2 = 1 / math.sqrt(2)
I2 = np.eye(2, dtype=complex)
X = np.array([[0, 1], [1, 0]], dtype=complex)
Y = np.array([[0, -1j], [1j, 0]], dtype=complex)
Z = np.array([[1, 0], [0, -1]], dtype=complex)
H = np.array([[1, 1], [1, -1]], dtype=complex) * SQ2
S = np.array([[1, 0], [0, 1j]], dtype=complex)
T = np.array([[1, 0], [0, np.exp(1j * math.pi / 4)]], dtype=complex)
SX = np.array([[1 + 1j, 1 - 1j], [1 - 1j, 1 + 1j]], dtype=complex) / 2


def RX(theta):
    return expm(-1j * theta / 2 * X)


def RY(theta):
    return expm(-1j * theta / 2 * Y)


def RZ(theta):
    return expm(-1j * theta / 2 * Z)


def U3(phi, theta, omega):
    # standard U3(theta, phi, lambda) with lambda = omega
    c, s = math.cos(theta / 2), math.sin(theta / 2)
    return np.array(
        [[c, -np.exp(1j * omega) * s], [np.exp(1j * phi) * s, np.exp(1j * (phi + omega)) * c]],
        dtype=complex,
    )


CX = np.array([[1, 0, 0, 0], [0, 1, 0, 0], [0, 0, 0, 1], [0, 0, 1, 0]], dtype=complex)
CZ = np.diag([1, 1, 1, -1]).astype(complex)
SWAP = np.array([[1, 0, 0, 0], [0, 0, 1, 0], [0, 1, 0, 0], [0, 0, 0, 1]], dtype=complex)
CSWAP = np.eye(8, dtype=complex)
CSWAP[[5, 6]] = CSWAP[[6, 5]]


def destroy(d):
    a = np.zeros((d, d), dtype=complex)
    for n in range(1, d):
        a[n - 1, n] = math.sqrt(n)
    return a


def create(d):
    return destroy(d).conj().T


def number(d):
    return np.diag(np.arange(d)).astype(complex)


def phase(d, phi):
    """Convention of the implementation's constructor docstring: exp(+i n phi).
    (The enum docstring says exp(-i phi n); see the ambiguity table - the reference
    accepts either sign but the same one everywhere.)"""
    return np.diag(np.exp(1j * phi * np.arange(d)))


def displace(d, alpha):
    a = destroy(d)
    return expm(alpha * a.conj().T - np.conj(alpha) * a)


def squeeze(d, zeta):
    a = destroy(d)
    return expm(0.5 * (np.conj(zeta) * a @ a - zeta * a.conj().T @ a.conj().T))


def beamsplitter(d1, d2, eta):
    a = np.kron(destroy(d1), np.eye(d2))
    b = np.kron(np.eye(d1), destroy(d2))
    return expm(1j * eta * (a.conj().T @ b + a @ b.conj().T))


def coherent_amplitudes(alpha, n):
    out = np.zeros(n, dtype=complex)
    for k in range(n):
        out[k] = np.exp(-abs(alpha) ** 2 / 2) * alpha**k / math.sqrt(math.factorial(k))
    return out


def squeezed_vacuum_amplitudes(zeta, n):
    r, th = abs(zeta), np.angle(zeta)
    out = np.zeros(n, dtype=complex)
    for m in range(0, (n + 1) // 2):
        k = 2 * m
        if k >= n:
            break
        out[k] = (
            (1 / math.sqrt(math.cosh(r)))
            * (-np.exp(1j * th) * math.tanh(r)) ** m
            * math.sqrt(math.factorial(k))
            / (2**m * math.factorial(m))
        )
    return out


# ---------------------------------------------------------------------------------------
# deterministic "generic" matrices used for Custom operators, Kraus sets and POVMs


def _fixed_complex(n, m, tag):
    """A fixed, seed-independent, full complex n x m matrix (no RNG)."""
    i = np.arange(n)[:, None].astype(float)
    j = np.arange(m)[None, :].astype(float)
    t = float(tag)
    re = np.sin(1.3 * i + 0.7 * j * j + 0.37 * t + 0.2) + 0.5 * np.cos(0.9 * i * j + t)
    im = np.cos(0.8 * i * i - 1.1 * j + 0.53 * t) - 0.4 * np.sin(0.6 * (i + 1) * (j + 2) + t)
    return re + 1j * im


def fixed_unitary(n, tag=0):
    if tag == "tiny":
        # real Givens rotation by 3e-3 between the two highest levels below 3: turns a number state into a vector whose
        # dominant amplitude is 1 - 4.5e-6 (not a basis state: 9e-6 of the population sits next door)
        u = np.eye(n, dtype=complex)
        if n >= 2:
            a, b = (1, 2) if n >= 3 else (0, 1)
            c, s_ = np.cos(3e-3), np.sin(3e-3)
            u[a, a] = c; u[b, b] = c; u[a, b] = -s_; u[b, a] = s_
        return u
    q, r = np.linalg.qr(_fixed_complex(n, n, tag))
    ph = np.diag(r) / np.abs(np.diag(r))
    return q * ph


def dilation_kraus(d, k, tag=0):
    """k Kraus operators on dimension d from a fixed unitary on d*k (unitary dilation)."""
    u = fixed_unitary(d * k, tag)
    # K_i = <i|_env U |0>_env  : take the blocks of the first d columns
    v = u[:, :d]
    return [v[i * d:(i + 1) * d, :].copy() for i in range(k)]


def nonunitary(n, tag=0):
    """A fixed invertible non-unitary matrix (for the renormalising Custom types)."""
    return np.eye(n) + 0.35 * _fixed_complex(n, n, tag + 5)


def dephasing(p):
    return [math.sqrt(1 - p) * I2, math.sqrt(p) * Z]


def amplitude_damping(g):
    return [np.array([[1, 0], [0, math.sqrt(1 - g)]], dtype=complex),
            np.array([[0, math.sqrt(g)], [0, 0]], dtype=complex)]


def photon_loss(d, g):
    """Amplitude damping of a bosonic mode truncated at d levels: K_k = sum_n sqrt(C(n,k) (1-g)^(n-k) g^k) |n-k><n|."""
    ks = []
    for k in range(d):
        K = np.zeros((d, d), dtype=complex)
        for n in range(k, d):
            K[n - k, n] = math.sqrt(math.comb(n, k) * (1 - g) ** (n - k) * g**k)
        ks.append(K)
    return ks


def embed(op, d_from, d_to):
    """Embed an operator on d_from levels into d_to >= d_from levels as op (+) 0."""
    out = np.zeros((d_to, d_to), dtype=complex)
    out[:d_from, :d_from] = op
    return out
