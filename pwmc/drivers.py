"""Dedicated exhaustive drivers: C14 (reproducibility / key hygiene) and C15 (Operation reuse)."""
import itertools
import json
import multiprocessing as mp


def _pool_init():
    from .explorer import _watch_parent
    _watch_parent()

import os
import time

import numpy as np

from . import report

PI = np.pi


def _sig(prop, clause, name, symptom):
    return {"property": prop, "clause": clause, "kind": "program", "name": name, "entry": "-", "tkinds": "",
            "loc": "", "level": "", "contraction": True, "symptom": symptom}


# ======================================================================================
# C14


C14_WORLD = {"envs": ["A", "B"], "custom": {"Q": 3}, "handles": {"h1": ["A", "B", "Q"]},
             "init": {"A.f": 1, "A.p": "R", "B.p": "H"}, "contraction": True}

C14_ALPHABET = [
    ["op", "state", ["A.p"], "H", None],
    ["op", "state", ["B.p"], "H", None],
    ["op", "ce:h1", ["A.p", "B.p"], "CX", None],
    ["op", "ce:h1", ["A.f", "B.f"], "BS", {"eta": PI / 4}],
    ["env_combine", "A"],
    ["kraus", "state", ["A.p"], "dephase", None],
    ["measure", "state", ["A.p"], True, False],
    ["measure", "state", ["B.p"], True, False],
    ["measure", "ce:h1", ["A.f"], False, True],
    ["measure", "env:B", [], False, True],
    ["povm", "state", ["B.p"], "diag", False, True],
    ["povm", "ce:h1", ["A.p", "B.p"], "dil3", False, True],
    ["measure", "ce:h1", ["A.p", "B.p"], True, False],
    ["measure", "ce:h1", ["B.p", "A.f", "A.p"], False, True],
    ["measure", "ce:h1", ["A.f", "B.p"], True, False],
    ["measure", "ce:h1", ["B.p", "B.f"], True, True],
]
# second world: the two polarizations already share a matrix-level (mixed) product state
C14_PREFIX = [["op", "ce:h1", ["A.p", "B.p"], "CX", None], ["kraus", "ce:h1", ["A.p"], "dephase", None],
              ["op", "ce:h1", ["A.f", "B.f"], "BS", {"eta": PI / 4}]]
DRAWS = ("measure", "povm")


def c14_programs(maxlen):
    progs = []
    for n in range(1, maxlen + 1):
        for t in itertools.product(range(len(C14_ALPHABET)), repeat=n):
            if any(C14_ALPHABET[i][0] in DRAWS for i in t):
                progs.append(list(t))
    return progs


def _c14_run(prog, seed, noise, prefixed=False):
    from . import env as E
    from .observe import Obs
    from .world import World, SAMPLER
    import jax

    E.reset_globals(contraction=True, seed=seed)
    if noise:
        # unrelated earlier activity: consumes keys and registries before the seed is set
        C = E.Config()
        for _ in range(3):
            C.random_key
        junk = E.Envelope()
        junk.polarization.state = E.PolarizationLabel.R
        SAMPLER.install()
        SAMPLER.passthrough = True
        SAMPLER.begin([])
        junk.polarization.measure()
        E.CompositeEnvelope(E.Envelope(), E.Envelope())
        E.reset_globals(contraction=True, seed=seed)
    w = World.build(C14_WORLD)
    if prefixed:
        for a in C14_PREFIX:
            w.apply(a, [])
    E.Config().set_seed(seed)
    SAMPLER.passthrough = True
    trace = []
    keys = []
    for i in prog:
        a = C14_ALPHABET[i]
        res = w.apply(a, [])
        trace.append([res.symptom(), repr(res.value), [c["chosen"] for c in res.calls]])
        keys.extend(c["key"].hex() for c in res.calls)
    final_key = np.asarray(E.Config()._key).tobytes().hex()
    canon = Obs(w).canon()
    SAMPLER.passthrough = False
    return {"trace": trace, "keys": keys, "final_key": final_key, "canon": canon}


def _c14_task(args):
    prog, seed = args
    pre = bool(prog and prog[0] == -1)
    body = [i for i in prog if i >= 0]
    out = {"prog": prog, "seed": seed, "viol": [], "runs": 0}
    try:
        r1 = _c14_run(body, seed, False, pre)
        r2 = _c14_run(body, seed, False, pre)
        r3 = _c14_run(body, seed, True, pre)
        out["runs"] = 3
        out["result"] = r1
        if r1 != r2:
            out["viol"].append(("repeat", "differs", "second run after re-seeding differs from the first"))
        if r1 != r3:
            out["viol"].append(("after-activity", "differs", "run after unrelated activity (keys consumed, objects created) differs"))
        ks = r1["keys"]
        if len(set(ks)) != len(ks):
            out["viol"].append(("key-distinct", "key-reused", f"{len(ks) - len(set(ks))} random draws received a key that was already used"))
        if r1["final_key"] in ks:
            out["viol"].append(("key-distinct", "carried-key-used", "a draw used the key that is carried on for later draws"))
    except Exception as ex:  # noqa: BLE001
        out["error"] = f"{type(ex).__name__}: {ex}"
    return out


def _c14_independent(seed_range):
    """Two identically prepared polarizations measured one after the other."""
    from . import env as E
    from .world import World, SAMPLER
    pairs = []
    keysdiffer = True
    for s in seed_range:
        E.reset_globals(contraction=True, seed=s)
        w = World.build({"envs": ["A", "B"], "custom": {}, "handles": {}, "init": {"A.p": "R", "B.p": "R"}, "contraction": True})
        E.Config().set_seed(s)
        SAMPLER.passthrough = True
        r1 = w.apply(["measure", "state", ["A.p"], True, False], [])
        r2 = w.apply(["measure", "state", ["B.p"], True, False], [])
        SAMPLER.passthrough = False
        pairs.append((r1.value[0][1], r2.value[0][1]))
        if r1.calls[0]["key"] == r2.calls[0]["key"]:
            keysdiffer = False
    return pairs, keysdiffer


def run_c14(tier, seed):
    t0 = time.time()
    q = tier == "quick"
    progs = c14_programs(2 if q else 3)
    # the same programs (one step shorter) started from the matrix-level product-state world (marker -1)
    progs = progs + [[-1] + p for p in c14_programs(1 if q else 2)]
    seeds = sorted(set([0, 1, 2 ** 31 - 1, int(seed) % (2 ** 31)]))
    tasks = [(p, s) for p in progs for s in seeds]
    ctx = mp.get_context("spawn")
    nproc = int(os.environ.get("PWMC_PROCS", min(16, os.cpu_count() or 1)))
    viol = []
    errors = []
    results = {}
    runs = 0
    with ctx.Pool(nproc, initializer=_pool_init) as pool:
        for r in pool.imap_unordered(_c14_task, tasks, chunksize=4):
            if "error" in r:
                errors.append(r)
                continue
            runs += r["runs"]
            results[(tuple(r["prog"]), r["seed"])] = r["result"]
            for cl, sym, txt in r["viol"]:
                viol.append({"sig": _sig("C14", cl, "program", sym), "detail": txt,
                             "witness": {"world": "C14", "history": [], "engine": "C14",
                                         "program": {"actions": [(C14_ALPHABET[i] if i >= 0 else "PREFIX CX+dephase") for i in r["prog"]], "seed": r["seed"]}}})
    # (b) fresh processes: a second, newly spawned pool recomputes a slice of the programs
    fresh_tasks = tasks if not q else tasks[:: max(1, len(tasks) // 200)]
    with ctx.Pool(nproc, initializer=_pool_init) as pool:
        for r in pool.imap_unordered(_c14_task, fresh_tasks, chunksize=4):
            if "error" in r:
                errors.append(r)
                continue
            runs += r["runs"]
            if results.get((tuple(r["prog"]), r["seed"])) != r["result"]:
                viol.append({"sig": _sig("C14", "fresh", "program", "differs"), "detail": "result in a fresh process differs",
                             "witness": {"world": "C14", "history": [], "engine": "C14",
                                         "program": {"actions": [(C14_ALPHABET[i] if i >= 0 else "PREFIX CX+dephase") for i in r["prog"]], "seed": r["seed"]}}})
    if errors:
        print("HARNESS-ERROR", errors[0])
        return 2
    pairs, keysdiffer = _c14_independent(range(64))
    if not keysdiffer:
        viol.append({"sig": _sig("C14", "independent", "twin-measurement", "same-key"), "detail": "two consecutive draws received the same key",
                     "witness": {"world": "C14", "history": [], "engine": "C14", "program": {"independent": True}}})
    if all(a == b for a, b in pairs):
        viol.append({"sig": _sig("C14", "independent", "twin-measurement", "copies"),
                     "detail": "two identically prepared measurements gave identical outcomes for every seed 0..63",
                     "witness": {"world": "C14", "history": [], "engine": "C14", "program": {"independent": True}}})
    if len(set(pairs)) < 3:
        viol.append({"sig": _sig("C14", "independent", "twin-measurement", "degenerate"),
                     "detail": f"outcome pairs over seeds 0..63 take only the values {sorted(set(pairs))}",
                     "witness": {"world": "C14", "history": [], "engine": "C14", "program": {"independent": True}}})
    groups = report.group_violations(viol, "C14")
    code, used, new = report.conclude("C14", groups)
    distinct_final = len(set(r["canon"] for r in results.values()))
    distinct_traces = len(set(json.dumps(r["trace"]) for r in results.values()))
    cov = {"states": distinct_final, "transitions": sum(len(k[0]) for k in results) * 3,
           "traces_validated_against_impl": runs, "evaluations": runs, "distinct_nontrivial": distinct_traces,
           "rule": "programs = every sequence of length <= %d over a 12-action alphabet (gates, combine, channel, 3 projective "
                   "measurements, 2 POVMs) in W3 that contains at least one random draw, for seeds %s; each executed three times "
                   "(twice after re-seeding, once after unrelated activity) plus in a freshly spawned process; distinct_nontrivial = "
                   "distinct (symptom, outcome, draw) traces observed" % (2 if q else 3, seeds),
           "programs": len(progs), "seeds": seeds, "fresh_process_recomputations": len(fresh_tasks),
           "independence_pairs_seeds_0_63": sorted(set(pairs)), "exhaustive": True,
           "samples": [{"actions": [(C14_ALPHABET[i] if i >= 0 else "PREFIX CX+dephase") for i in progs[len(progs) // 2]], "seed": seeds[0],
                        "result": results.get((tuple(progs[len(progs) // 2]), seeds[0]), {}).get("trace")}],
           "known_findings_matched": {k: u["count"] for k, u in used.items()}}
    report.write_evidence("C14", tier, seed, "model_checking", cov, time.time() - t0, len(new),
                          ["the real jax.random.choice is used (sampler in pass-through mode, keys recorded)",
                           "JAX PRNG itself is trusted"])
    print(f"[C14] tier={tier} seed={seed} programs={len(progs)} runs={runs} distinct_final_states={distinct_final} "
          f"known={len(used)} new={len(new)} wall={time.time() - t0:.0f}s")
    return code


# ======================================================================================
# C15


C15_WORLD = {"envs": ["A", "B"], "custom": {"Q": 3}, "handles": {"h1": ["A", "B", "Q"]},
             "init": {"A.f": 1, "A.f.dim": 3, "B.f": 2, "B.f.dim": 5, "A.p": "R", "B.p": "V"}, "contraction": True}

# spec name -> (operation name, params, list of target tuples it may be applied to)
C15_SPECS = {
    "BS": ("BS", {"eta": PI / 4}, [["A.f", "B.f"], ["B.f", "A.f"]]),
    "CX": ("CX", None, [["A.p", "B.p"], ["B.p", "A.p"]]),
    "XFF": ("XFF", None, [["A.f", "B.f"], ["B.f", "A.f"]]),
    "XPP": ("XPP", None, [["A.p", "B.p"], ["B.p", "A.p"]]),
    "XFP": ("XFP", None, [["A.f", "A.p"], ["B.f", "A.p"]]),
    "XF1": ("XF1", None, [["A.f"], ["B.f"]]),
    "Creation": ("Creation", None, [["A.f"], ["B.f"]]),
    "Displace": ("Displace", {"alpha": 0.5}, [["A.f"], ["B.f"]]),
    "PhaseShift": ("PhaseShift", {"phi": PI / 2}, [["A.f"], ["B.f"]]),
    "FExpr": ("FExpr", {"t": 0.7}, [["A.f"], ["B.f"]]),
    "PCustom": ("PCustom", {"tag": 0}, [["A.p"], ["B.p"]]),
}


def _c15_make(w, specname, targets):
    """Build an Operation for `specname`; user arrays are numpy arrays we keep pristine copies of."""
    from . import env as E
    import jax.numpy as jnp
    name, params, _ = C15_SPECS[specname]
    user = []
    if name == "XPP":
        z = np.array([[1, 0], [0, -1]], dtype=complex)
        x = np.array([[0, 1], [1, 0]], dtype=complex)
        user = [z, x]
        ctx = {"z": lambda dims: z, "x": lambda dims: x}
        op = E.Operation(E.CompositeOperationType.Expression, expr=("expm", ("s_mult", 0.3j, ("kron", "z", "x"))),
                         context=ctx, state_types=(E.Polarization, E.Polarization))
    elif name == "XFF":
        store = {}

        def n_of(i):
            def f(dims):
                a = np.diag(np.arange(dims[i])).astype(complex)
                store[i] = a
                return a
            return f
        ctx = {"n0": n_of(0), "n1": n_of(1)}
        op = E.Operation(E.CompositeOperationType.Expression,
                         expr=("expm", ("s_mult", 0.3j, ("kron", "n0", ("m_mult", "n1", "n1")))),
                         context=ctx, state_types=(E.Fock, E.Fock))
    elif name == "XF1":
        ctx = {"n": lambda dims: np.diag(np.arange(dims[0])).astype(complex)}
        op = E.Operation(E.CompositeOperationType.Expression, expr=("expm", ("s_mult", 0.7j, "n")),
                         context=ctx, state_types=(E.Fock,))
    elif name == "PCustom":
        m = np.array(np.eye(2) + 0.35 * np.array([[0.2, 1j], [0.5, -0.3]]), dtype=complex)
        user = [m]
        op = E.Operation(E.PolarizationOperationType.Custom, operator=m)
    else:
        op = w.make_operation(name, params, targets)
    return op, [(u, u.copy()) for u in user]


def _c15_task(first):
    """Explore every sequence that starts with `first` (depth-first), twin-checking each apply."""
    from . import env as E
    from .observe import Obs
    from .world import World

    prefix, maxlen = first
    out = {"sequences": 0, "applies": 0, "viol": [], "distinct": set(), "sample": None}
    slots = ["s1", "s2"]
    alphabet = [("new", s, n) for s in slots for n in C15_SPECS] + \
               [("apply", s, ti) for s in slots for ti in (0, 1)]

    def canon(w):
        o = Obs(w)
        saved = w.enum_types
        w.enum_types = {}
        c = o.canon()
        w.enum_types = saved
        return c

    def run(seq):
        E.reset_globals(contraction=True)
        w = World.build(C15_WORLD)
        slotspec = {}
        users = {}
        trace = []
        for kind, s, x in seq:
            if kind == "new":
                w.activate()
                op, held = _c15_make(w, x, C15_SPECS[x][2][0])
                w.capture()
                w.slots[s] = op
                slotspec[s] = x
                users[s] = held
                trace.append("new")
                continue
            if s not in slotspec:
                return None
            spec = slotspec[s]
            targets = C15_SPECS[spec][2][x]
            entry = "ce:h1" if (len(targets) > 1 or spec == "XF1") else "state"
            # twin: same world, freshly constructed operation
            wt = w.clone()
            wt.activate()
            opf, _h = _c15_make(wt, spec, targets)
            wt.capture()
            wt.slots["fresh"] = opf
            rt = wt.apply(["slot_apply", "fresh", entry, targets], [])
            r = w.apply(["slot_apply", s, entry, targets], [])
            out["applies"] += 1
            trace.append(r.symptom())
            if r.symptom() != rt.symptom():
                return ("reuse", "accepts-differently", f"reused {spec} on {targets}: {r.symptom()}, fresh: {rt.symptom()}", trace)
            if r.ok and canon(w) != canon(wt):
                return ("reuse", "result-differs", f"reused {spec} on {targets} gives a different state than a fresh operation", trace)
            for sl, held in users.items():
                for arr, pristine in held:
                    if not np.array_equal(arr, pristine):
                        return ("user-arrays", "mutated", f"array supplied to {slotspec[sl]} was modified", trace)
        out["distinct"].add(tuple(trace))
        return ("ok", trace)

    def rec(seq):
        if len(seq) >= 1 and seq[-1][0] == "apply":
            res = run(seq)
            if res is None:
                return
            out["sequences"] += 1
            if out["sample"] is None and len(seq) == maxlen:
                out["sample"] = [list(map(str, s)) for s in seq]
            if res[0] != "ok":
                out["viol"].append((res[0], res[1], res[2], [list(map(str, s)) for s in seq]))
                return
        if len(seq) >= maxlen:
            return
        for a in alphabet:
            if a[0] == "apply" and not any(k == "new" and s == a[1] for k, s, _ in seq):
                continue
            rec(seq + [a])

    rec(list(prefix))
    out["distinct"] = len(out["distinct"])
    return out


def run_c15(tier, seed):
    t0 = time.time()
    q = tier == "quick"
    maxlen = 3 if q else 4
    slots = ["s1", "s2"]
    firsts = [([("new", s, n)], maxlen) for s in slots[:1] for n in C15_SPECS]
    # second level split for parallelism
    tasks = []
    for pref, ml in firsts:
        for s in slots:
            for n in C15_SPECS:
                tasks.append((pref + [("new", s, n)], ml))
        for ti in (0, 1):
            tasks.append((pref + [("apply", "s1", ti)], ml))
    ctx = mp.get_context("spawn")
    nproc = int(os.environ.get("PWMC_PROCS", min(16, os.cpu_count() or 1)))
    viol = []
    seqs = applies = distinct = 0
    sample = None
    with ctx.Pool(nproc, initializer=_pool_init) as pool:
        for r in pool.imap_unordered(_c15_task, tasks, chunksize=1):
            seqs += r["sequences"]
            applies += r["applies"]
            distinct += r["distinct"]
            sample = sample or r["sample"]
            for cl, sym, txt, seq in r["viol"]:
                viol.append({"sig": _sig("C15", cl, "sequence", sym), "detail": txt,
                             "witness": {"world": "C15", "history": [], "engine": "C15", "program": seq}})
    groups = report.group_violations(viol, "C15")
    code, used, new = report.conclude("C15", groups)
    cov = {"states": max(1, distinct), "transitions": applies, "traces_validated_against_impl": applies,
           "evaluations": seqs, "distinct_nontrivial": distinct,
           "rule": "every sequence of length <= %d over {construct(slot, spec), apply(slot, target choice)} with 2 slots, 10 operation "
                   "specs (BS, CX, three Expression composites with different operand types, Creation, Displace, PhaseShift, Fock "
                   "expression, polarization Custom) and 2 target choices each (Fock cut-offs 3 and 5, both operand orders) that ends "
                   "in an apply; every apply is twin-checked against a freshly constructed operation on a clone; distinct = distinct "
                   "accept/reject traces" % maxlen,
           "exhaustive": True, "samples": [sample or "n/a"],
           "known_findings_matched": {k: u["count"] for k, u in used.items()}}
    report.write_evidence("C15", tier, seed, "model_checking", cov, time.time() - t0, len(new),
                          ["twin oracle: a freshly constructed Operation on a deep copy of the same world",
                           "state equality is bit-exact (canonical key) apart from the enum bookkeeping itself"])
    print(f"[C15] tier={tier} seed={seed} sequences={seqs} applies={applies} distinct_traces={distinct} "
          f"known={len(used)} new={len(new)} wall={time.time() - t0:.0f}s")
    return code


def run(prop, tier, seed):
    if prop == "C14":
        return run_c14(tier, seed)
    if prop == "C15":
        return run_c15(tier, seed)
    raise SystemExit(f"unknown property {prop}")
