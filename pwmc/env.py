"""Process-wide environment: where the library comes from, JAX configuration, globals reset.

Everything that imports photon_weave goes through this module first, so that the
library is always the *current working tree* of /repo (nothing is copied or installed).
"""
import os
import sys

REPO = os.environ.get("PWMC_REPO", "/repo")
VERIF = os.path.dirname(os.path.dirname(os.path.abspath(__file__)))
GUARD = "PHOTON_WEAVE_VERIF"  # reserved hook guard (no hooks are needed, see DESIGN §8)

if REPO not in sys.path:
    sys.path.insert(0, REPO)

os.environ.setdefault("JAX_PLATFORMS", "cpu")
# one compute thread per process: parallelism comes from worker processes
os.environ.setdefault("XLA_FLAGS", "--xla_cpu_multi_thread_eigen=false intra_op_parallelism_threads=1")
for _v in ("OMP_NUM_THREADS", "OPENBLAS_NUM_THREADS", "MKL_NUM_THREADS"):
    os.environ.setdefault(_v, "1")
os.environ[GUARD] = "1"

import jax  # noqa: E402

jax.config.update("jax_enable_x64", True)
_cache = os.environ.get("PWMC_JAX_CACHE", os.path.join(VERIF, ".cache", "jax"))
try:
    os.makedirs(_cache, exist_ok=True)
    jax.config.update("jax_compilation_cache_dir", _cache)
    jax.config.update("jax_persistent_cache_min_compile_time_secs", 0)
    jax.config.update("jax_persistent_cache_min_entry_size_bytes", -1)
except Exception:  # pragma: no cover - cache is an optimisation only
    pass

import photon_weave  # noqa: E402

assert os.path.realpath(os.path.dirname(photon_weave.__file__)).startswith(os.path.realpath(REPO)), (
    "photon_weave was not imported from the repository working tree: " + photon_weave.__file__
)

from photon_weave.photon_weave import Config  # noqa: E402
from photon_weave.operation import (  # noqa: E402
    CompositeOperationType,
    CustomStateOperationType,
    FockOperationType,
    Operation,
    PolarizationOperationType,
)
from photon_weave.state.composite_envelope import (  # noqa: E402
    CompositeEnvelope,
    CompositeEnvelopeContainer,
    ProductState,
)
from photon_weave.state.custom_state import CustomState  # noqa: E402
from photon_weave.state.envelope import Envelope  # noqa: E402
from photon_weave.state.expansion_levels import ExpansionLevel  # noqa: E402
from photon_weave.state.fock import Fock  # noqa: E402
from photon_weave.state.polarization import Polarization, PolarizationLabel  # noqa: E402

_ENUM_DEFAULTS = {m: list(m.expected_base_state_types) for m in CompositeOperationType}
# the library resolves the strings lazily in update(); remember the pristine string lists
_ENUM_PRISTINE = {
    "NonPolarizingBeamSplitter": ["Fock", "Fock"],
    "CXPolarization": ["Polarization", "Polarization"],
    "SwapPolarization": ["Polarization", "Polarization"],
    "CSwapPolarization": ["Polarization"] * 3,
    "CZPolarization": ["Polarization"] * 2,
    "Expression": [],
}


def reset_globals(contraction=True, seed=0):
    """Bring every piece of hidden global library state to a defined value."""
    # re-bind (never clear: a live World may own the currently bound dictionaries)
    CompositeEnvelope._containers = {}
    CompositeEnvelope._instances = {}
    C = Config()
    C.set_seed(seed)
    C.set_contraction(contraction)
    for m in CompositeOperationType:
        m.expected_base_state_types = list(_ENUM_PRISTINE[m.name])


def repo_tree_hash():
    import hashlib

    h = hashlib.sha256()
    root = os.path.join(REPO, "photon_weave")
    for d, _, fs in sorted(os.walk(root)):
        for f in sorted(fs):
            if f.endswith(".py"):
                p = os.path.join(d, f)
                h.update(os.path.relpath(p, root).encode())
                h.update(open(p, "rb").read())
    return h.hexdigest()[:16]
