"""C17: fault menu and its oracle.

A fault probe is a request the reference model classifies as invalid.  Oracle:
 rejects    - an exception is raised, or the documented failure value (False) is returned
 state      - the joint physical state afterwards equals the one before (1e-9)
 wellformed - C07 and C13 predicates still hold
"""
import itertools

import numpy as np

from .judge import _viol, c13_problems, _cmp


def fault_menu(seed):
    from .specs import live, entries_for, first_handle, pols, focks, customs, rotate

    def gen(m, w, o):
        acts = []
        L = live(m)
        P, F, Q = pols(m), focks(m), customs(m)
        for e in m.envs:
            f_, p_ = e + ".f", e + ".p"
            if m.ref.alive(f_) and m.ref.alive(p_) and int(w.objs[f_].dimensions) > 1:
                for t in ([f_, p_], [p_, f_]):
                    acts.append(["kraus", "env:" + e, t, "nontp-complex", None])
                    h_ = first_handle(m, t)
                    if h_:
                        acts.append(["kraus", "ce:" + h_, t, "nontp-complex", None])
        for s in L:
            for ent in entries_for(m, s):
                if int(w.objs[s].dimensions) > 1:      # operator sizes are only meaningful once the dimension is set
                    # Kraus sets that are not trace preserving / of the wrong size
                    for n in ("nontp", "nontp-complex", "wrongsize+", "wrongsize-"):
                        acts.append(["kraus", ent, [s], n, None])
                    # measurement operators of the wrong size
                    for n in ("wrongsize+", "wrongsize-"):
                        acts.append(["povm", ent, [s], n, False, True])
                # operation of the wrong kind
                k = m.ref.kinds[s]
                if k == "P":
                    acts.append(["op", ent, [s], "Creation", None])
                    acts.append(["op", ent, [s], "PhaseShift", {"phi": 0.4}])
                elif k == "F":
                    acts.append(["op", ent, [s], "X", None])
                    acts.append(["op", ent, [s], "RZ", {"theta": 0.4}])
                    acts.append(["op", ent, [s], "Annihilation", None])     # fault only on the vacuum
                    if m.ref.max_occupation(s) == 0 and int(w.objs[s].dimensions) > 1:
                        acts.append(["op", ent, [s], "FLower", None])
                        if all(b.kind == "own" for b in o.blocks) and ent == "state":
                            # (only at fresh states: this request is known to hang, each probe costs the action timeout)
                            acts.append(["op", ent, [s], "FLowerX", None])
                else:
                    acts.append(["op", ent, [s], "X", None])
                    acts.append(["op", ent, [s], "Creation", None])
        # composite operations with wrong operand kinds / count
        for h, mem in sorted(m.members.items()):
            ms = [s for s in L if s in mem]
            if F and P:
                acts.append(["op", "ce:" + h, [F[0], P[0]], "CX", None])
                acts.append(["op", "ce:" + h, [P[0], F[0]], "BS", {"eta": 0.5}])
            if len(P) > 1:
                acts.append(["op", "ce:" + h, [P[0], P[1]], "BS", {"eta": 0.5}])
                acts.append(["op", "ce:" + h, [P[0]], "CX", None])
                acts.append(["op", "ce:" + h, [P[0], P[1]], "CSWAP", None])
            if len(F) > 1:
                acts.append(["op", "ce:" + h, [F[0], F[1]], "CZ", None])
            break
        # operand that is not a member of the addressed envelope
        if len(m.envs) > 1:
            e0, e1 = m.envs[0], m.envs[1]
            if m.ref.alive(e1 + ".p"):
                acts.append(["op", "env:" + e0, [e1 + ".p"], "X", None])
                acts.append(["kraus", "env:" + e0, [e1 + ".p"], "dephase", None])
                acts.append(["povm", "env:" + e0, [e1 + ".p"], "proj", False, True])
            for ea, eb in ((e0, e1), (e1, e0)):
                # a Fock space of the other envelope (it may hold the same value as the envelope's own)
                if m.ref.alive(eb + ".f") and m.ref.alive(ea + ".f"):
                    acts.append(["op", "env:" + ea, [eb + ".f"], "PhaseShift", {"phi": 0.4}])
                    acts.append(["op", "env:" + ea, [eb + ".f"], "FIdentity", None])
                    if int(w.objs[eb + ".f"].dimensions) > 1:
                        acts.append(["kraus", "env:" + ea, [eb + ".f"], "loss", None])
                        acts.append(["povm", "env:" + ea, [eb + ".f"], "proj", False, True])
        # shrinking below the occupied levels
        for f in F:
            occ = m.ref.max_occupation(f)
            for ent in entries_for(m, f):
                for n in sorted(set([occ, max(0, occ - 1)])):
                    if n >= 1 or True:
                        acts.append(["resize", ent, f, n])
        # every call kind on a destroyed subsystem
        for s in sorted(m.ref.dead):
            k = m.ref.kinds[s]
            acts.append(["op", "state", [s], "X" if k == "P" else "Creation", None])
            acts.append(["kraus", "state", [s], "dephase" if k == "P" else "ident", None])
            acts.append(["measure", "state", [s], True, True])
            acts.append(["povm", "state", [s], "proj", False, True])
            h = m.handle_of(s)
            if h:
                acts.append(["op", "ce:" + h, [s], "X" if k == "P" else "Creation", None])
                acts.append(["measure", "ce:" + h, [s], True, True])
                acts.append(["kraus", "ce:" + h, [s], "dephase" if k == "P" else "ident", None])
        return rotate(acts, seed)
    return gen


def judge_fault(T, spec):
    V = []
    a, res, o0, o1, m0 = T.a, T.res, T.o0, T.o1, T.m0
    kind = a[0]
    # ---- rejects
    rejected = not res.ok
    if res.ok and kind == "resize" and res.value is not True:
        rejected = True          # documented failure value
    if res.exc_type == "ActionTimeout":
        V.append(_viol("C17", "rejects", T, "hang", f"invalid request neither returned nor raised: {res.exc_msg}"))
        return V
    if not rejected:
        V.append(_viol("C17", "rejects", T, "accepted", f"invalid request returned {res.value!r}"))
    # ---- state unchanged
    names = list(m0.ref.names)
    r0, why0 = o0.joint(names, m0.ref.dims)
    r1, why1 = o1.joint(names, m0.ref.dims)
    live0, live1 = set(o0.live_subs()), set(o1.live_subs())
    if live0 != live1:
        V.append(_viol("C17", "state", T, "destroyed", f"live subsystems changed {sorted(live0)} -> {sorted(live1)}"))
    elif r0 is not None:
        if r1 is None:
            V.append(_viol("C17", "state", T, "unreadable-after", why1))
        elif _cmp(r0, r1) > 1e-9:
            V.append(_viol("C17", "state", T, "changed", f"max|rho_after-rho_before|={_cmp(r0, r1):.3e}"))
    if any(o0.sub[s]["dims"] != o1.sub[s]["dims"] for s in o0.sub) and kind != "resize":
        ch = [s for s in o0.sub if o0.sub[s]["dims"] != o1.sub[s]["dims"]]
        # dimensions may legitimately grow (padding) as long as the physical state is unchanged: not flagged
    # ---- still well formed
    for cl, txt in o1.c07_problems():
        if (cl, txt) not in o0.c07_problems():
            V.append(_viol("C17", "wellformed", T, "c07:" + cl, txt))
    p0 = c13_problems(o0, m0)
    for cl, txt in c13_problems(o1, m0):
        if (cl, txt) not in p0:
            V.append(_viol("C17", "wellformed", T, "c13:" + cl, txt))
    return V


def continuation_c17(T, w0, w1, m0):
    """`continue` clause: after a rejected request the program continues as if the call had not been made.
    The same valid continuation is executed on the post-fault world and on a fault-free twin (a clone of the
    pre-state); symptom, reported outcome and joint state must agree."""
    from .observe import Obs
    V = []
    a = T.a
    names = list(m0.ref.names)
    targets = [t for t in (a[2] if a[0] in ("op", "kraus", "povm", "measure") else [a[2]] if a[0] == "resize" else []) if t in names]
    menu = []
    for t in targets[:1]:
        k = m0.ref.kinds[t]
        menu.append(["op", "state", [t], {"P": "H", "F": "PhaseShift", "Q": "QExpr"}[k], {"phi": 0.7} if k == "F" else None])
        menu.append(["measure", "state", [t], True, False])
    if not menu and names:
        t = names[0]
        k = m0.ref.kinds[t]
        menu.append(["op", "state", [t], {"P": "H", "F": "PhaseShift", "Q": "QExpr"}[k], {"phi": 0.7} if k == "F" else None])
    for c in menu:
        wa, wb = w1.clone(), w0.clone()
        ra, rb = wa.apply(c, []), wb.apply(c, [])
        if "ActionTimeout" in (ra.exc_type, rb.exc_type):
            wa, wb = w1.clone(), w0.clone()
            ra, rb = wa.apply(c, [], timeout=300.0), wb.apply(c, [], timeout=300.0)
        if ra.symptom() != rb.symptom() or repr(ra.value) != repr(rb.value):
            V.append(_viol("C17", "continue", T, "continuation-differs",
                           f"{c[0]}:{c[3] if c[0] == 'op' else ''} on {c[2]} after the rejected call: {ra.symptom()} {ra.value!r} vs fault-free {rb.symptom()} {rb.value!r}"))
            continue
        if ra.ok:
            oa, ob = Obs(wa), Obs(wb)
            live = [s_ for s_ in names if not oa.sub[s_]["measured"]]
            ja, _ = oa.joint(live, m0.ref.dims)
            jb, _ = ob.joint(live, m0.ref.dims)
            if ja is not None and jb is not None and _cmp(ja, jb) > 1e-9:
                V.append(_viol("C17", "continue", T, "continuation-state-differs",
                               f"{c[0]} on {c[2]} after the rejected call gives a different state (max diff {_cmp(ja, jb):.3e})"))
    return V
