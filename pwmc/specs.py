"""Check specifications: worlds, seeds, core / probe alphabets, bounds per tier.

Every alphabet is a finite explicit list; VERIF_SEED only (a) rotates the order of
equal-rank actions and (b) adds one seed-derived value to each continuous parameter grid.
"""
import itertools
import math
import os

PI = math.pi


def seed_angle(seed, lo=0.15, hi=2.9):
    """One extra parameter value derived from the seed, inside a safe range."""
    x = ((seed * 2654435761) % 1000003) / 1000003.0
    return round(lo + (hi - lo) * x, 6)


# ---------------------------------------------------------------------------------------
# worlds


def W1(init=None, contraction=True):
    return {"envs": ["A"], "custom": {}, "handles": {}, "init": init or {}, "contraction": contraction}


def W2(init=None, contraction=True):
    return {"envs": ["A", "B"], "custom": {}, "handles": {"h1": ["A", "B"]}, "init": init or {}, "contraction": contraction}


def W3(init=None, contraction=True):
    return {"envs": ["A", "B"], "custom": {"Q": 3}, "handles": {"h1": ["A", "B", "Q"]}, "init": init or {},
            "contraction": contraction}


def W4(init=None, contraction=True):
    return {"envs": ["A", "B", "C"], "custom": {}, "handles": {"h1": ["A", "B", "C"]}, "init": init or {},
            "contraction": contraction, "D": 4}


# ---------------------------------------------------------------------------------------
# helpers on the current state


def live(m):
    return list(m.ref.names)


def entries_for(m, s, all_handles=False):
    out = ["state"]
    e = m.ref.env_of.get(s)
    if e is not None:
        out.append("env:" + e)
    hs = [h for h, mem in sorted(m.members.items()) if s in mem]
    if hs:
        out.extend("ce:" + h for h in (hs if all_handles else hs[:1]))
    return out


def first_handle(m, targets):
    for h, mem in sorted(m.members.items()):
        if all(t in mem for t in targets):
            return h
    return None


def pols(m):
    return [s for s in live(m) if m.ref.kinds[s] == "P"]


def focks(m):
    return [s for s in live(m) if m.ref.kinds[s] == "F"]


def customs(m):
    return [s for s in live(m) if m.ref.kinds[s] == "Q"]


# ---------------------------------------------------------------------------------------
# core alphabet: builds layouts, entanglement, complex phases, mixedness


def layout_core(m, w, o, rich=True):
    acts = []
    L = live(m)
    P, F, Q = pols(m), focks(m), customs(m)
    for e in m.envs:
        acts.append(["env_combine", e])
    for e in m.envs[:1]:
        acts.append(["env_reorder", e, [e + ".p"]])
    if P:
        acts.append(["op", "state", [P[0]], "H", None])
        acts.append(["op", "state", [P[0]], "S", None])
    if len(P) > 1:
        acts.append(["op", "state", [P[1]], "H", None])
        h = first_handle(m, P[:2])
        if h:
            acts.append(["op", "ce:" + h, [P[0], P[1]], "CX", None])
            acts.append(["ce_combine", h, [P[1], P[0]]])
    if F:
        acts.append(["op", "state", [F[0]], "Creation", None])
        acts.append(["op", "state", [F[0]], "PhaseShift", {"phi": PI / 2}])
        acts.append(["expand", "state", [F[0]]])
    if len(F) > 1:
        h = first_handle(m, F[:2])
        if h:
            acts.append(["op", "ce:" + h, [F[0], F[1]], "BS", {"eta": PI / 4}])
    if P:
        acts.append(["kraus", "state", [P[0]], "dephase", None])
        acts.append(["expand", "state", [P[0]]])
    if Q:
        acts.append(["op", "state", [Q[0]], "QExpr", None])
        if rich:
            acts.append(["kraus", "state", [Q[0]], "dil2", None])
        h = first_handle(m, [Q[0]] + F[:1])
        if h and F:
            acts.append(["ce_combine", h, [F[0], Q[0]]])
    if F and rich and w.fock_dim(F[0]) > 0:
        acts.append(["op", "state", [F[0]], "FCustom", {"tag": 1}])
    for e in m.envs[:1]:
        if rich and m.ref.alive(e + ".f") and m.ref.alive(e + ".p") and w.fock_dim(e + ".f") > 0:
            acts.append(["kraus", "env:" + e, [e + ".f", e + ".p"], "uni", None])
    if F and P and rich:
        # fock of one envelope with polarization of the other: cross-envelope block
        cross = [p for p in P if m.ref.env_of[p] != m.ref.env_of[F[0]]]
        if cross:
            h = first_handle(m, [F[0], cross[0]])
            if h:
                acts.append(["ce_combine", h, [cross[0], F[0]]])
    acts.append(["set_contraction", not m.contraction])
    return acts


def rotate(xs, seed):
    if not xs:
        return xs
    k = seed % len(xs)
    return xs[k:] + xs[:k]


# ---------------------------------------------------------------------------------------
# probe families


def probes_single_ops(seed, full=True):
    ang = [PI / 2, -PI / 3, 2 * PI + 0.4, seed_angle(seed)]
    disp = [[0.4, 0.3], [-0.5, 0.0], [0.0, 0.6]]

    def gen(m, w, o):
        acts = []
        for s in live(m):
            k = m.ref.kinds[s]
            ops = []
            if k == "P":
                for n in ("I", "X", "Y", "Z", "H", "S", "T", "SX"):
                    ops.append((n, None))
                for n in ("RX", "RY", "RZ"):
                    for th in (ang if full else ang[:1] + ang[-1:]):
                        ops.append((n, {"theta": th}))
                ops.append(("U3", {"phi": 0.3, "theta": 1.1, "omega": -0.7}))
                ops.append(("PCustom", {"tag": 0}))
            elif k == "F":
                ops += [("Creation", None), ("Annihilation", None), ("PhaseShift", {"phi": PI / 2}),
                        ("PhaseShift", {"phi": -1.3}), ("FIdentity", None), ("FCustom", {"tag": 1}),
                        ("FExpr", {"t": 0.7})]
                if m.ref.dims[s] >= 20:
                    # worlds with a large reference cut-off: displacement judged with the truncation tolerance
                    ops += [("Displace", {"alpha": al}) for al in (disp if full else disp[:1])]
            else:
                ops += [("QCustom", {"tag": 2}), ("QExpr", None)]
            for ent in entries_for(m, s):
                for n, p in ops:
                    acts.append(["op", ent, [s], n, p])
        return rotate(acts, seed)
    return gen


def probes_composite_ops(seed):
    etas = [PI / 4, 0.3, -1.1, seed_angle(seed, 0.2, 1.4)]

    def gen(m, w, o):
        acts = []
        P, F, Q = pols(m), focks(m), customs(m)
        for a, b in itertools.permutations(P, 2):
            h = first_handle(m, [a, b])
            if h:
                for n in ("CX", "CZ", "SWAP"):
                    acts.append(["op", "ce:" + h, [a, b], n, None])
        for t in itertools.permutations(P, 3):
            h = first_handle(m, list(t))
            if h:
                acts.append(["op", "ce:" + h, list(t), "CSWAP", None])
        for a, b in itertools.permutations(F, 2):
            h = first_handle(m, [a, b])
            if h:
                for eta in etas:
                    acts.append(["op", "ce:" + h, [a, b], "BS", {"eta": eta}])
                acts.append(["op", "ce:" + h, [a, b], "XFF", None])
        for f in F:
            for p in P:
                h = first_handle(m, [f, p])
                if h:
                    acts.append(["op", "ce:" + h, [f, p], "XFP", None])
        for p in P:
            for q in Q:
                h = first_handle(m, [p, q])
                if h:
                    acts.append(["op", "ce:" + h, [p, q], "XPQ", None])
        return rotate(acts, seed)
    return gen


def probes_structural(seed, max_sub=2):
    def gen(m, w, o):
        acts = []
        L = live(m)
        for e in m.envs:
            acts.append(["env_combine", e])
            for args in ([e + ".f"], [e + ".p"], [e + ".f", e + ".p"], [e + ".p", e + ".f"]):
                acts.append(["env_reorder", e, args])
            acts.append(["expand", "env:" + e, []])
            for k in (1, 2):
                for t in itertools.permutations([e + ".f", e + ".p"], k):
                    acts.append(["trace_out", "env:" + e, list(t)])
        for s in L:
            acts.append(["expand", "state", [s]])
            acts.append(["contract", "state", [s], "L"])
            acts.append(["contract", "state", [s], "V"])
            acts.append(["trace_out", "state", [s]])
        for h, mem in sorted(m.members.items()):
            ms = [s for s in L if s in mem]
            for k in range(1, max_sub + 1):
                for t in itertools.permutations(ms, k):
                    if k >= 2:
                        acts.append(["ce_combine", h, list(t)])
                    acts.append(["ce_reorder", h, list(t)])
                    acts.append(["trace_out", "ce:" + h, list(t)])
            for s in ms:
                acts.append(["expand", "ce:" + h, [s]])
            break
        return rotate(acts, seed)
    return gen


def probes_identity_requests(seed):
    """Requests that force the automatic combine / reorder / expand machinery while the physics must not move."""
    def gen(m, w, o):
        acts = []
        L = live(m)
        for s in L:
            k = m.ref.kinds[s]
            for ent in entries_for(m, s):
                if k == "P":
                    acts.append(["op", ent, [s], "I", None])
                    acts.append(["kraus", ent, [s], "ident", None])
                elif k == "F":
                    acts.append(["op", ent, [s], "FIdentity", None])
                    acts.append(["kraus", ent, [s], "ident", None])
                else:
                    acts.append(["kraus", ent, [s], "ident", None])
                if ent != "state" or True:
                    acts.append(["povm", ent, [s], "ident", False, True])
        for h, mem in sorted(m.members.items()):
            ms = [s for s in L if s in mem]
            for t in itertools.permutations(ms, 2):
                acts.append(["op", "ce:" + h, list(t), "XID", None])
                acts.append(["kraus", "ce:" + h, list(t), "ident", None])
                acts.append(["povm", "ce:" + h, list(t), "ident", False, True])
            break
        return rotate(acts, seed)
    return gen


def probes_kraus(seed):
    def gen(m, w, o):
        acts = []
        L = live(m)
        for s in L:
            k = m.ref.kinds[s]
            names = {"P": ["dephase", "ampdamp", "dil3"], "F": ["loss", "dil3"], "Q": ["dil3", "dil2"]}[k]
            for ent in entries_for(m, s):
                for n in names:
                    acts.append(["kraus", ent, [s], n, None])
        for e in m.envs:
            if m.ref.alive(e + ".f") and m.ref.alive(e + ".p"):
                for t in ([e + ".f", e + ".p"], [e + ".p", e + ".f"]):
                    acts.append(["kraus", "env:" + e, t, "dil2", None])
        for h, mem in sorted(m.members.items()):
            ms = [s for s in L if s in mem]
            for t in itertools.permutations(ms, 2):
                acts.append(["kraus", "ce:" + h, list(t), "dil2", None])
            break
        return rotate(acts, seed)
    return gen


def measure_calls(m, with_env=True, max_ce=2):
    acts = []
    L = live(m)
    flags = [(False, True), (False, False), (True, True), (True, False)]
    for s in L:
        for sep, de in flags:
            acts.append(["measure", "state", [s], sep, de])
    if with_env:
        for e in m.envs:
            f, p = e + ".f", e + ".p"
            for args in ([], [f], [p], [f, p], [p, f]):
                for sep, de in flags:
                    acts.append(["measure", "env:" + e, args, sep, de])
    for h, mem in sorted(m.members.items()):
        ms = [s for s in L if s in mem]
        for k in range(1, max_ce + 1):
            for t in itertools.permutations(ms, k):
                for sep, de in flags:
                    acts.append(["measure", "ce:" + h, list(t), sep, de])
        break
    return acts


def probes_measure(seed, max_ce=2):
    def gen(m, w, o):
        return rotate(measure_calls(m, max_ce=max_ce), seed)
    return gen


def probes_povm(seed, names1=("proj", "diag", "dil3"), names2=("proj", "dil3")):
    def gen(m, w, o):
        acts = []
        L = live(m)
        for s in L:
            for ent in entries_for(m, s):
                for n in names1:
                    for de in (True, False):
                        if ent == "state":
                            for partial in (False, True):
                                acts.append(["povm", ent, [s], n, de, partial])
                        else:
                            acts.append(["povm", ent, [s], n, de, True])
        for e in m.envs:
            f, p = e + ".f", e + ".p"
            for t in ([f, p], [p, f]):
                for n in names2:
                    for de in (True, False):
                        acts.append(["povm", "env:" + e, t, n, de, True])
        for h, mem in sorted(m.members.items()):
            ms = [s for s in L if s in mem]
            for t in itertools.permutations(ms, 2):
                for n in names2:
                    for de in (True, False):
                        acts.append(["povm", "ce:" + h, list(t), n, de, True])
            break
        return rotate(acts, seed)
    return gen


def probes_resize(seed):
    def gen(m, w, o):
        acts = []
        for s in focks(m):
            for ent in entries_for(m, s):
                for n in range(0, m.D + 2):
                    acts.append(["resize", ent, s, n])
        return rotate(acts, seed)
    return gen


def union(*gens):
    def gen(m, w, o):
        out = []
        for g in gens:
            out.extend(g(m, w, o))
        return out
    return gen


def no_probes(m, w, o):
    return []


# ---------------------------------------------------------------------------------------
# registry

ENT_PREFIX = [["op", "state", ["A.p"], "H", None], ["op", "ce:h1", ["A.p", "B.p"], "CX", None],
              ["op", "state", ["A.p"], "S", None]]


def with_prefix(w, prefix):
    w = dict(w)
    w["prefix"] = prefix
    return w


def two_block_seed(depth):
    """Two composite product spaces: a vector-level polarization pair and a pure matrix-level (Fock, custom) pair."""
    tb = W3({"A.f": 1, "A.p": "R", "B.p": "V"})
    tb["prefix"] = [["op", "ce:h1", ["A.p", "B.p"], "CX", None], ["ce_combine", "h1", ["A.f", "Q"]], ["expand", "state", ["A.f"]]]
    tb2 = W3({"A.f": 1, "A.p": "R", "B.p": "V"}, contraction=False)
    tb2["prefix"] = [["ce_combine", "h1", ["A.f", "Q"]], ["op", "ce:h1", ["A.p", "B.p"], "CX", None], ["expand", "state", ["A.p"]],
                     ["set_contraction", True]]
    return [("W3/two-blocks-VM", tb, depth), ("W3/two-blocks-MV", tb2, depth)]


def weak_seed(depth):
    """Fock space weakly entangled with its polarization: sqrt(1-eps)|0,H> + sqrt(eps)|2,V>, eps = 2e-5."""
    wk = W3({"A.f": 0, "A.f.dim": 4, "A.p": "H"})
    wk["prefix"] = [["kraus", "env:A", ["A.f", "A.p"], "weak", {"eps": 2e-5}]]
    wk2 = W3({"A.f": 0, "A.f.dim": 4, "A.p": "H"}, contraction=False)
    wk2["prefix"] = [["kraus", "env:A", ["A.f", "A.p"], "weak", {"eps": 2e-5}], ["ce_combine", "h1", ["A.f", "B.p"]]]
    return [("W3/weakly-entangled-env", wk, depth), ("W3/weakly-entangled-ps", wk2, depth)]


def rich_seeds(depth):
    """Seed worlds whose prefix already builds the layouts single actions cannot reach quickly."""
    ps3m = W3({"A.f": 1, "A.p": "R", "B.p": "V"})
    ps3m["prefix"] = [["ce_combine", "h1", ["A.f", "Q"]], ["ce_combine", "h1", ["B.p", "A.f"]],
                      ["op", "state", ["B.p"], "H", None], ["expand", "state", ["A.f"]]]
    envent = W3({"A.f": 1, "A.p": "R", "A.f.dim": 3, "B.f": 1})
    envent["prefix"] = [["kraus", "env:A", ["A.f", "A.p"], "uni", None]]
    enventm = W3({"A.f": 1, "A.p": "R", "A.f.dim": 3}, contraction=False)
    enventm["prefix"] = [["kraus", "env:A", ["A.p", "A.f"], "uni", None], ["kraus", "state", ["A.p"], "dephase", None]]
    fcx = W3({"A.f": 1, "A.f.dim": 3, "B.p": "L"})
    fcx["prefix"] = [["op", "state", ["A.f"], "FCustom", {"tag": 1}], ["op", "state", ["Q"], "QExpr", None]]
    ent = with_prefix(W3({"A.f": 1, "B.p": "V"}), ENT_PREFIX)
    wmix = W3({"A.f": 1, "A.p": "R", "B.p": "V"})       # product state with purity deficit 2e-4 (weakly mixed), contraction on
    wmix["prefix"] = [["op", "ce:h1", ["A.p", "B.p"], "CX", None], ["kraus", "ce:h1", ["A.p"], "dephase", {"p": 1e-4}]]
    out = [("W3/ent", ent), ("W3/ps3M", ps3m), ("W3/env-entangled", envent), ("W3/env-entangled-mixed", enventm),
           ("W3/fock-complex", fcx), ("W3/ps-weakly-mixed", wmix)]
    return [(n, w, depth) for n, w in out]


SEEDS_W3 = [
    ("W3/default", W3()),
    ("W3/1R-noctr", W3({"A.f": 1, "A.p": "R", "B.p": "V"}, contraction=False)),
    ("W3/2L-dim", W3({"A.f": 2, "A.p": "L", "B.f": 1, "A.f.dim": 4, "Q": 1})),
]
SEEDS_W1 = [
    ("W1/default", W1()),
    ("W1/1R", W1({"A.f": 1, "A.p": "R"})),
    ("W1/2V-dim-noctr", W1({"A.f": 2, "A.p": "V", "A.f.dim": 4}, contraction=False)),
]
def big_w1():
    """W1 with a reference cut-off large enough for displacements (joint dimension 24 x 2)."""
    a = W1({"A.f": 1, "A.p": "R"})
    a["D"] = 24
    b = W1({"A.f": 0, "A.f.dim": 3, "A.p": "L"}, contraction=False)
    b["D"] = 24
    b["prefix"] = [["kraus", "env:A", ["A.f", "A.p"], "uni", None]]
    return [("W1/1R-D24", a), ("W1/entangled-D24", b)]


SEEDS_W4 = [
    ("W4/default", W4()),
    ("W4/distinct", W4({"A.f": 1, "B.f": 2, "A.p": "R", "B.p": "V", "C.p": "L"})),
]


def quick_w3(depth=1):
    return [(n, w_, depth) for n, w_ in SEEDS_W3[:2]]


def get(name, tier, seed):
    q = tier == "quick"
    core = lambda m, w, o: rotate(layout_core(m, w, o), 0)  # noqa: E731
    base = {"D": 6, "faults": False, "wall_cap": 1500 if q else int(os.environ.get("PWMC_WALL_CAP", "1800")), "state_cap": 100000}
    if name == "C01":
        return {**base, "prop": "C01", "worlds": (SEEDS_W3[:2] + SEEDS_W1[:2] if q else SEEDS_W3 + SEEDS_W1) + rich_seeds(1 if q else 2)
                + [(n, w_, 1 if q else 2) for n, w_ in big_w1()],
                "core": core, "probes": probes_single_ops(seed, full=not q), "depth": 2 if q else 3}
    if name == "C02":
        return {**base, "prop": "C02", "worlds": (SEEDS_W3[:2] + SEEDS_W1[:2] if q else SEEDS_W3 + SEEDS_W1) + rich_seeds(1 if q else 2) + weak_seed(0 if q else 1),
                "core": core, "probes": union(probes_structural(seed), probes_identity_requests(seed)),
                "depth": 2 if q else 3}
    if name == "C03":
        return {**base, "prop": "C03", "worlds": (SEEDS_W3[:2] + SEEDS_W4[1:] if q else SEEDS_W3 + SEEDS_W4) + rich_seeds(1 if q else 2),
                "core": core, "probes": probes_composite_ops(seed), "depth": 2 if q else 3}
    if name == "C04":
        return {**base, "prop": "C04", "worlds": (quick_w3(1) + SEEDS_W1[:2] if q else SEEDS_W3 + SEEDS_W1) + rich_seeds(1 if q else 2),
                "core": core, "probes": probes_measure(seed), "depth": 2 if q else 3}
    if name == "C05":
        def core5(m, w, o):
            acts = layout_core(m, w, o)
            # feed post-measurement states back into the frontier
            L = live(m)
            if L:
                acts.append(["measure", "state", [L[0]], True, False])
                acts.append(["measure", "state", [L[-1]], False, True])
            F5 = focks(m)
            if F5:
                acts.append(["measure", "state", [F5[0]], True, True])      # partner polarization survives its envelope
                h5 = first_handle(m, [F5[0]])
                if h5:
                    acts.append(["measure", "ce:" + h5, [F5[0]], True, True])   # ... and its envelope is retired by the composite
            return acts
        return {**base, "prop": "C05", "worlds": (quick_w3(1) + SEEDS_W1[:2] if q else SEEDS_W3 + SEEDS_W1) + rich_seeds(1 if q else 2),
                "core": core5, "probes": probes_measure(seed), "depth": 2 if q else 3, "continuation": True}
    if name == "C06":
        return {**base, "prop": "C06", "worlds": (SEEDS_W3[:2] + SEEDS_W1[:2] if q else SEEDS_W3 + SEEDS_W1) + rich_seeds(1 if q else 2),
                "core": core, "probes": probes_kraus(seed), "depth": 2 if q else 3}
    if name == "C07":
        wide = union(probes_single_ops(seed, full=False), probes_kraus(seed), probes_structural(seed, 2),
                     probes_measure(seed, 1), probes_resize(seed))
        return {**base, "prop": "C07", "worlds": ([(SEEDS_W3[0][0], SEEDS_W3[0][1], 1), SEEDS_W3[1]] if q else SEEDS_W3 + SEEDS_W1) + rich_seeds(1 if q else 2) + weak_seed(0 if q else 1),
                "core": core, "probes": wide, "depth": 2 if q else 3}
    if name == "C09":
        w9 = (rich_seeds(1)[:1] + rich_seeds(0)[1:] + [SEEDS_W1[1]]) if q else SEEDS_W3 + SEEDS_W1 + rich_seeds(2)
        return {**base, "prop": "C09", "worlds": w9,
                "core": core, "probes": probes_povm(seed, ("diag", "dil3"), ("dil3",)) if q else probes_povm(seed),
                "depth": 2 if q else 3}
    if name == "C10":
        return {**base, "prop": "C10", "worlds": (SEEDS_W3[:2] + SEEDS_W1[1:] if q else SEEDS_W3 + SEEDS_W1) + rich_seeds(1 if q else 2) + weak_seed(0 if q else 1),
                "core": core, "probes": probes_resize(seed), "depth": 2 if q else 3}
    if name == "C20":
        wide = union(probes_single_ops(seed, full=False), probes_composite_ops(seed), probes_kraus(seed),
                     probes_structural(seed, 2), probes_measure(seed, 2), probes_resize(seed))
        return {**base, "prop": "C20", "worlds": (SEEDS_W3[:2] if q else SEEDS_W3) + rich_seeds(1 if q else 2) + two_block_seed(0 if q else 1),
                "core": core, "probes": wide, "depth": 1 if q else 2}
    if name == "C13":
        def core13(m, w, o):
            acts = []
            hs = sorted(m.members)
            nxt = f"h{len(hs) + 1}"
            pool = [e for e in m.envs if m.ref.alive(e + ".f") and m.ref.alive(e + ".p")] + customs(m) + hs
            if len(hs) < 4 and (not q or len(hs) < 3 or m.tags.get("chain")):
                for x in pool:
                    acts.append(["ce_new", nxt, [x]])
                for x, y in itertools.permutations(pool, 2):
                    acts.append(["ce_new", nxt, [x, y]])
                if not q:
                    for t in itertools.permutations(pool[:4], 3):
                        acts.append(["ce_new", nxt, list(t)])
            L = live(m)
            for h in hs[:2]:
                ms = [x for x in L if x in m.members[h]]
                P = [x for x in ms if m.ref.kinds[x] == "P"]
                F = [x for x in ms if m.ref.kinds[x] == "F"]
                if len(P) >= 2:
                    acts.append(["op", "ce:" + h, [P[0], P[1]], "CX", None])
                    acts.append(["ce_combine", h, [P[1], P[0]]])
                    acts.append(["ce_reorder", h, [P[1], P[0]]])
                if F and P:
                    acts.append(["ce_combine", h, [F[0], P[-1]]])
                    acts.append(["kraus", "ce:" + h, [P[0]], "dephase", None])
                    acts.append(["measure", "ce:" + h, [P[0]], False, True])
                    acts.append(["measure", "ce:" + h, [F[0]], True, False])
            for e in m.envs[:1]:
                acts.append(["env_combine", e])
            return acts
        WM = {"envs": ["A", "B", "C"], "custom": {"Q": 3}, "handles": {}, "init": {"A.f": 1, "B.p": "R"},
              "contraction": True, "D": 3}
        WX = {"envs": ["A", "B", "C", "D"], "custom": {}, "handles": {"h1": ["A", "B"], "h2": ["C", "D"]},
              "init": {"A.f": 1, "C.p": "V"}, "contraction": True, "D": 3}
        wide = union(probes_measure(seed, 2), probes_structural(seed, 2), probes_kraus(seed)) if q else \
            union(probes_measure(seed, 2), probes_structural(seed, 2), probes_kraus(seed), probes_resize(seed))

        def is_w3(m):
            return len(m.envs) == 2 and "Q" in m.ref.kinds

        def core13b(m, w, o):
            return layout_core(m, w, o) if is_w3(m) else core13(m, w, o)

        def probes13(m, w, o):
            return wide(m, w, o) if is_w3(m) else []
        WC = {"envs": ["A", "B"], "custom": {}, "handles": {"h1": ["A", "B"]}, "init": {"A.f": 1, "B.p": "R"},
              "contraction": True, "D": 3, "tags": {"chain": True},
              "prefix": [["ce_combine", "h1", ["A.p", "B.p"]]]}
        WH = {"envs": ["A", "B", "C"], "custom": {"Q": 3}, "handles": {"h1": ["A"], "h2": ["h1", "B"]},
              "init": {"A.f": 1, "B.p": "R"}, "contraction": True, "D": 3, "tags": {"chain": True}}
        return {**base, "prop": "C13", "worlds": [("WM", WM), ("WX", WX), ("WC/chain", WC), ("WH/merged-handle", WH, 2 if q else 3)] + [(n, w_, 1 if q else 2) for n, w_ in SEEDS_W3[:(1 if q else 2)]]
                + rich_seeds(0 if q else 1), "core": core13b, "probes": probes13,
                "depth": 3 if q else 4, "extra_judges": []}
    if name == "C11":
        etas = [PI / 4, 0.3, -1.1, PI / 2]
        phis = [PI / 2, -1.3, 2.4]

        def core11(m, w, o):
            acts = []
            F = focks(m)
            for a, b in itertools.permutations(F, 2):
                h = first_handle(m, [a, b])
                for eta in (etas if not q else etas[:1] + etas[2:3] + [seed_angle(seed, 0.2, 1.4)]):
                    acts.append(["op", "ce:" + h, [a, b], "BS", {"eta": eta}])
            for f in F:
                for phi in (phis if not q else phis[:1] + [seed_angle(seed)]):
                    acts.append(["op", "state", [f], "PhaseShift", {"phi": phi}])
            if F:
                h = first_handle(m, [F[0]])
                P = pols(m)
                if P:
                    acts.append(["op", "ce:" + h, [F[0], P[0]], "XFP", None])
                acts.append(["kraus", "state", [F[0]], "loss", None])
                if len(F) > 1:
                    acts.append(["ce_reorder", h, [F[1], F[0]]])
                # storage layouts: the mode inside a combined envelope, in either tensor order
                e0 = m.ref.env_of[F[0]]
                acts.append(["env_combine", e0])
                if m.ref.alive(e0 + ".p"):
                    acts.append(["op", "state", [e0 + ".p"], "H", None])
            return acts
        W11 = [("W4/100", W4({"A.f": 1})), ("W4/110", W4({"A.f": 1, "B.f": 1})), ("W4/200", W4({"A.f": 2})),
               ("W4/210", W4({"A.f": 2, "B.f": 1})), ("W4/111", W4({"A.f": 1, "B.f": 1, "C.f": 1}))]
        sup = W4({"A.f": 1, "A.f.dim": 3})
        sup["prefix"] = [["op", "state", ["A.f"], "FCustom", {"tag": 1}]]
        W11.insert(3, ("W4/superposition-of-0-1-2", sup))
        ks = range(0, 25, 2) if q else range(0, 25)
        phis_mzi = [k * PI / 12 for k in ks] + [seed_angle(seed)]
        for phi in phis_mzi:
            wz = W2({"A.f": 1})
            wz["prefix"] = [["op", "ce:h1", ["A.f", "B.f"], "BS", {"eta": PI / 4}],
                            ["op", "state", ["A.f"], "PhaseShift", {"phi": phi}],
                            ["op", "ce:h1", ["A.f", "B.f"], "BS", {"eta": PI / 4}]]
            wz["tags"] = {"mzi_phi": phi, "mzi_arm": "A.f"}
            W11.append((f"MZI/{phi:.4f}", wz, 0 if q else 1))
        return {**base, "prop": "C11", "worlds": (W11[:2] + W11[3:4] + W11[6:]) if q else W11, "core": core11,
                "probes": (lambda m, w, o: [["measure", "state", [f], True, False] for f in focks(m)]
                           + [a_ for a_ in core11(m, w, o) if a_[0] == "op" and a_[3] in ("BS", "PhaseShift")]),
                "depth": 2 if q else 3, "extra_judges": ["c11"]}
    if name == "C08":
        def probes8(m, w, o):
            acts = []
            L = live(m)
            for e in m.envs:
                acts.append(["expand", "env:" + e, []])
                acts.append(["contract", "env:" + e, [], "V"])
            for s_ in L:
                acts.append(["expand", "state", [s_]])
                acts.append(["contract", "state", [s_], "L"])
                acts.append(["contract", "state", [s_], "V"])
                acts.append(["measure", "state", [s_], True, False])
                acts.append(["measure", "state", [s_], False, True])
                for ent in entries_for(m, s_)[1:]:
                    acts.append(["measure", ent, [s_], False, False])
            for h, mem in sorted(m.members.items()):
                ms = [x for x in L if x in mem]
                for x in ms:
                    acts.append(["expand", "ce:" + h, [x]])
                for t in itertools.permutations(ms, 2):
                    acts.append(["ce_combine", h, list(t)])
                break
            acts.extend(probes_single_ops(seed, full=False)(m, w, o)[::7])
            acts.extend(probes_kraus(seed)(m, w, o)[::5])
            return rotate(acts, seed)
        nearly = W3({"A.f": 1, "A.p": "R"})
        nearly["prefix"] = [["kraus", "state", ["A.p"], "dephase", {"p": 1e-7 / 2}]]
        nearly2 = W3({"A.f": 1, "A.p": "R"})
        nearly2["prefix"] = [["kraus", "state", ["A.p"], "dephase", {"p": 1e-3 / 2}]]
        nearly3 = W3({"A.f": 1, "A.p": "R"})       # purity deficit 5e-6: above the documented 1e-6, must stay a matrix
        nearly3["prefix"] = [["kraus", "state", ["A.p"], "dephase", {"p": 2.5e-6}]]
        nearly4 = W1({"A.f": 1, "A.p": "L"}, contraction=False)
        nearly4["prefix"] = [["kraus", "state", ["A.p"], "ampdamp", {"g": 1.2e-5}]]
        nearlab = W3({"A.f": 1, "A.f.dim": 3})      # Fock vector (1-4.5e-6)|1> + 3e-3|2>: nearly, but not, a number state
        nearlab["prefix"] = [["op", "state", ["A.f"], "FCustom", {"tag": "tiny"}]]
        nearlab2 = W1({"A.f": 1, "A.f.dim": 3}, contraction=False)
        nearlab2["prefix"] = [["op", "state", ["A.f"], "FCustom", {"tag": "tiny"}]]
        near_label = [("W3/nearly-number-state-3e-3", nearlab, 1), ("W1/nearly-number-state-3e-3/no-contraction", nearlab2, 1)]
        w8 = SEEDS_W3[:2] + SEEDS_W1[1:2] + [("W3/nearly-pure-1e-7", nearly, 1), ("W3/nearly-pure-1e-3", nearly2, 1), ("W3/nearly-pure-5e-6", nearly3, 1), ("W1/nearly-pure-ampdamp-1.2e-5", nearly4, 1)] + near_label + rich_seeds(1)[1:]
        if not q:
            w8 = SEEDS_W3 + SEEDS_W1 + [("W3/nearly-pure-1e-7", nearly, 2), ("W3/nearly-pure-1e-3", nearly2, 2), ("W3/nearly-pure-5e-6", nearly3, 2), ("W1/nearly-pure-ampdamp-1.2e-5", nearly4, 2)] + [(n_, w_, 2) for n_, w_, _ in near_label] + rich_seeds(2)
        return {**base, "prop": "C08", "worlds": w8, "core": core, "probes": probes8, "depth": 2 if q else 3, "twin": "c08"}
    if name == "C18":
        def calls18(m, w, o):
            acts = []
            L = live(m)
            flags = [(False, True), (False, False), (True, True), (True, False)]
            for h, mem in sorted(m.members.items()):
                ms = [x for x in L if x in mem]
                F = [x for x in ms if m.ref.kinds[x] == "F"]
                P = [x for x in ms if m.ref.kinds[x] == "P"]
                for k in (1, 2, 3):
                    for t in itertools.permutations(F, k):
                        for sep, de in flags:
                            acts.append(["measure", "ce:" + h, list(t), sep, de])
                        if k >= 2:
                            acts.append(["ce_combine", h, list(t)])
                            acts.append(["ce_reorder", h, list(t)])
                        acts.append(["trace_out", "ce:" + h, list(t)])
                for t in itertools.permutations(P, 2):
                    acts.append(["measure", "ce:" + h, list(t), False, True])
                    acts.append(["op", "ce:" + h, list(t), "CX", None])
                    acts.append(["kraus", "ce:" + h, list(t), "dil2", None])
                    acts.append(["povm", "ce:" + h, list(t), "proj", False, True])
                for t in itertools.permutations(F, 2):
                    acts.append(["kraus", "ce:" + h, list(t), "dil2", None])
                    acts.append(["povm", "ce:" + h, list(t), "proj", False, True])
                    acts.append(["op", "ce:" + h, list(t), "XFF", None])
                for f in F:
                    for p_ in P:
                        acts.append(["measure", "ce:" + h, [f, p_], True, False])
                        acts.append(["ce_combine", h, [f, p_]])
                        acts.append(["trace_out", "ce:" + h, [p_, f]])
                break
            for e in m.envs:
                acts.append(["measure", "env:" + e, [], False, True])
                acts.append(["measure", "env:" + e, [e + ".f"], True, False])
            for s_ in L:
                acts.append(["measure", "state", [s_], False, True])
            # a Fock space of another envelope passed to an envelope entry point (must be rejected in both twins)
            for ea, eb in itertools.permutations(m.envs[:2], 2):
                if m.ref.alive(ea + ".f") and m.ref.alive(eb + ".f"):
                    acts.append(["op", "env:" + ea, [eb + ".f"], "FIdentity", None])
                    acts.append(["op", "env:" + ea, [eb + ".f"], "PhaseShift", {"phi": 0.4}])
                    acts.append(["kraus", "env:" + ea, [eb + ".f"], "loss", None])
                    acts.append(["povm", "env:" + ea, [eb + ".f"], "proj", False, True])
            return rotate(acts, seed)

        def core18(m, w, o):
            acts = []
            F, P = focks(m), pols(m)
            h = first_handle(m, F[:2]) if len(F) > 1 else None
            if h:
                acts.append(["ce_combine", h, [F[0], F[1]]])
                acts.append(["ce_combine", h, [F[1], F[2]]] if len(F) > 2 else ["ce_combine", h, [F[1], F[0]]])
                acts.append(["ce_combine", h, [F[0], P[1]]])
                acts.append(["op", "ce:" + h, [P[0], P[1]], "CX", None])
            for e in m.envs[:2]:
                acts.append(["env_combine", e])
            for f in F[:2]:
                acts.append(["expand", "state", [f]])
            for p_ in P[:2]:
                acts.append(["op", "state", [p_], "H", None])
            acts.append(["expand", "state", [F[0]]]) if F else None
            acts.append(["set_contraction", not m.contraction])
            return acts
        dims3 = {"A.f.dim": 3, "B.f.dim": 3, "C.f.dim": 3}
        E_ = W4(dict(dims3))
        E_["twin_init"] = {"A.f": 0, "B.f": 1, "C.f": 2, "A.p": "H", "B.p": "V", "C.p": "R", **dims3}
        E2 = W4({"A.f": 1, "B.f": 1, "C.f": 1, "A.p": "R", "B.p": "R", "C.p": "R", **dims3})
        E2["twin_init"] = {"A.f": 0, "B.f": 1, "C.f": 2, "A.p": "H", "B.p": "V", "C.p": "R", **dims3}
        # two composites that are merged by an action: membership must not depend on values
        EM = {"envs": ["A", "B", "C"], "custom": {}, "handles": {"h1": ["A"], "h2": ["B", "C"]}, "init": dict(dims3),
              "contraction": True, "D": 4, "twin_init": {"A.f": 0, "B.f": 1, "C.f": 2, "A.p": "H", "B.p": "V", "C.p": "R", **dims3},
              "prefix": [["expand", "state", ["B.f"]], ["ce_new", "h3", ["h1", "h2"]]]}
        EM2 = dict(EM)
        EM2["prefix"] = [["ce_new", "h3", ["h2", "h1"]]]
        return {**base, "prop": "C18", "worlds": [("W4/all-equal-0H", E_), ("W4/all-equal-1R", E2), ("W4/merged-equal", EM, 1),
                                                  ("W4/merged-equal-labels", EM2, 1)], "core": core18,
                "probes": calls18, "depth": 1 if q else 2, "twin": "c18"}
    if name == "C17":
        from .faults import fault_menu

        def core17(m, w, o):
            acts = layout_core(m, w, o)
            L = live(m)
            P, F = pols(m), focks(m)
            if P:
                acts.append(["measure", "state", [P[0]], True, True])
            if F:
                acts.append(["measure", "state", [F[-1]], False, True])
            return acts
        return {**base, "prop": "C17", "worlds": (quick_w3(1) + SEEDS_W1[1:2] if q else SEEDS_W3 + SEEDS_W1) + rich_seeds(1 if q else 2) + weak_seed(0 if q else 1)
                + [("W3/hom", with_prefix(W3({"A.f": 1, "B.f": 1}), [["op", "ce:h1", ["A.f", "B.f"], "BS", {"eta": PI / 4}]]), 0 if q else 1)],
                "core": core17, "probes": fault_menu(seed), "depth": 2 if q else 3, "faults": True}
    raise KeyError(name)
