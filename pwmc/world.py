"""Closed driver: builds a cast of real library objects, applies JSON-serialisable actions
through the public API only, owns the random draw, clones states.

Rules (DESIGN §3.3): library objects are never compared with ==, `in`, list.index or used
as dict keys by value.  Everything goes through id() / `is` and the role table.
"""
import copy
import traceback

import jax
import jax.numpy as jnp
import numpy as np

from . import env as E
from . import optable as OT

POL_LABELS = {"H": E.PolarizationLabel.H, "V": E.PolarizationLabel.V,
              "R": E.PolarizationLabel.R, "L": E.PolarizationLabel.L}

POL1 = ("I", "X", "Y", "Z", "H", "S", "T", "SX", "RX", "RY", "RZ", "U3", "PCustom")
FOCK1 = ("Creation", "Annihilation", "PhaseShift", "FIdentity", "Displace", "Squeeze", "FCustom", "FExpr", "FLower", "FLowerX")
CUST1 = ("QCustom", "QExpr")
COMP = ("CX", "CZ", "SWAP", "CSWAP", "BS", "XFP", "XPQ", "XFF", "XID")


# ======================================================================================
# sampler control


ACTION_TIMEOUT = 60.0


class ActionTimeout(Exception):
    pass


class Sampler:
    """Replacement for jax.random.choice: records (key, p) and forces the outcome."""

    def __init__(self):
        self.script = []
        self.calls = []       # list of dict(p=np.array, chosen=int, key=bytes, n=int)
        self.passthrough = False
        self._orig = None

    def install(self):
        if self._orig is None:
            self._orig = jax.random.choice
            jax.random.choice = self

    def uninstall(self):
        if self._orig is not None:
            jax.random.choice = self._orig
            self._orig = None

    def begin(self, script):
        self.script = list(script)
        self.calls = []

    def __call__(self, key, a, shape=(), replace=True, p=None, axis=0):
        pa = None if p is None else np.asarray(p, dtype=float).ravel()
        try:
            kb = np.asarray(key).tobytes()
        except Exception:
            kb = np.asarray(jax.random.key_data(key)).tobytes()
        if self.passthrough:
            out = self._orig(key, a, shape, replace, p, axis)
            self.calls.append({"p": pa, "chosen": int(out), "key": kb, "n": None})
            return out
        aa = np.asarray(a)
        n = int(aa) if aa.ndim == 0 else int(aa.shape[0])
        i = len(self.calls)
        if i < len(self.script):
            idx = int(self.script[i])
        else:
            idx = 0
            if pa is not None:
                good = [j for j in range(min(n, len(pa))) if np.isfinite(pa[j]) and pa[j] > 1e-12]
                if good:
                    idx = good[0]
        self.calls.append({"p": pa, "chosen": idx, "key": kb, "n": n})
        if aa.ndim == 0:
            return jnp.asarray(idx)
        return jnp.asarray(aa[idx])


SAMPLER = Sampler()


# ======================================================================================
# results


class Result:
    __slots__ = ("ok", "value", "exc_type", "exc_where", "exc_msg", "calls")

    def __init__(self):
        self.ok = True
        self.value = None
        self.exc_type = None
        self.exc_where = None
        self.exc_msg = None
        self.calls = []

    def symptom(self):
        if self.ok:
            return "ok"
        return f"exception:{self.exc_type}@{self.exc_where}"


def _exc_where(tb):
    where = None
    for fs in traceback.extract_tb(tb):
        if "/photon_weave/" in fs.filename:
            mod = fs.filename.split("/photon_weave/")[-1][:-3].replace("/", ".")
            where = f"{mod}.{fs.name}"
    return where or "harness"


def _frames_where(tb):
    """qualified innermost library frame (class.function when available)."""
    where = None
    t = tb
    while t is not None:
        co = t.tb_frame.f_code
        if "/photon_weave/" in co.co_filename:
            where = getattr(co, "co_qualname", co.co_name)
        t = t.tb_next
    return where or "harness"


# ======================================================================================
# the world


class World:
    """A cast of real objects plus the library's global registries and settings."""

    def __init__(self):
        self.objs = {}          # role -> object   (envelopes 'A', subsystems 'A.f','A.p','Q', handles 'h1')
        self.kinds = {}         # role -> 'E' | 'F' | 'P' | 'Q' | 'H'
        self.containers = {}
        self.instances = {}
        self.contraction = True
        self.enum_types = {m.name: list(E._ENUM_PRISTINE[m.name]) for m in E.CompositeOperationType}
        self.slots = {}         # C15: operation slots  name -> Operation
        self._ids = None

    # ---------------------------------------------------------------- construction
    @classmethod
    def build(cls, spec):
        """spec = {"envs": [...], "custom": {"Q": 3}, "handles": {"h1": [...]}, "init": {...},
                   "contraction": bool}"""
        w = cls()
        w.contraction = bool(spec.get("contraction", True))
        w.activate(fresh=True)
        init = spec.get("init", {})
        for e in spec.get("envs", []):
            env = E.Envelope()
            w.objs[e] = env
            w.kinds[e] = "E"
            w.objs[e + ".f"] = env.fock
            w.kinds[e + ".f"] = "F"
            w.objs[e + ".p"] = env.polarization
            w.kinds[e + ".p"] = "P"
            if e + ".f" in init:
                env.fock.state = int(init[e + ".f"])
            if e + ".f.dim" in init and init[e + ".f.dim"]:
                env.fock.dimensions = int(init[e + ".f.dim"])
            if e + ".p" in init:
                env.polarization.state = POL_LABELS[init[e + ".p"]]
        for q, d in spec.get("custom", {}).items():
            cs = E.CustomState(int(d))
            w.objs[q] = cs
            w.kinds[q] = "Q"
            if q in init:
                cs.state = int(init[q])
        for h, args in spec.get("handles", {}).items():
            w.objs[h] = E.CompositeEnvelope(*[w.objs[a] for a in args])
            w.kinds[h] = "H"
        w._ids = None
        w.capture()
        return w

    # ---------------------------------------------------------------- global state ownership
    def activate(self, fresh=False):
        """Install this world's registries and settings as the library's globals."""
        if fresh:
            self.containers = {}
            self.instances = {}
        E.CompositeEnvelope._containers = self.containers
        E.CompositeEnvelope._instances = self.instances
        C = E.Config()
        C._contractions = self.contraction
        for m in E.CompositeOperationType:
            m.expected_base_state_types = list(self.enum_types[m.name])
        SAMPLER.install()

    def capture(self):
        """Read back global settings the library may have changed."""
        self.contraction = bool(E.Config()._contractions)
        self.enum_types = {m.name: list(m.expected_base_state_types) for m in E.CompositeOperationType}

    def clone(self):
        w = World()
        w.objs, w.containers, w.instances, w.slots = copy.deepcopy(
            (self.objs, self.containers, self.instances, self.slots))
        w.kinds = dict(self.kinds)
        w.contraction = self.contraction
        w.enum_types = {k: list(v) for k, v in self.enum_types.items()}
        return w

    # ---------------------------------------------------------------- roles
    def ids(self):
        if self._ids is None or len(self._ids) != len(self.objs):
            self._ids = {id(o): r for r, o in self.objs.items()}
        return self._ids

    def role(self, obj):
        return self.ids().get(id(obj), f"?{type(obj).__name__}")

    def subsystems(self):
        return [r for r, k in self.kinds.items() if k in "FPQ"]

    def envelopes(self):
        return [r for r, k in self.kinds.items() if k == "E"]

    def handles(self):
        return [r for r, k in self.kinds.items() if k == "H"]

    def env_of(self, sub):
        return sub.split(".")[0] if "." in sub else None

    # ---------------------------------------------------------------- operator factories
    def fock_dim(self, role):
        return int(self.objs[role].dimensions)

    def make_operation(self, name, params, targets):
        T = E
        Op = E.Operation
        P = E.PolarizationOperationType
        F = E.FockOperationType
        Q = E.CustomStateOperationType
        Cc = E.CompositeOperationType
        p = params or {}
        if name in ("I", "X", "Y", "Z", "H", "S", "T", "SX"):
            return Op(getattr(P, name))
        if name in ("RX", "RY", "RZ"):
            return Op(getattr(P, name), theta=p["theta"])
        if name == "U3":
            return Op(P.U3, phi=p["phi"], theta=p["theta"], omega=p["omega"])
        if name == "PCustom":
            return Op(P.Custom, operator=jnp.array(OT.nonunitary(2, p.get("tag", 0))))
        if name == "Creation":
            return Op(F.Creation)
        if name == "Annihilation":
            return Op(F.Annihilation)
        if name == "PhaseShift":
            return Op(F.PhaseShift, phi=p["phi"])
        if name == "FIdentity":
            return Op(F.Identity)
        if name == "Displace":
            return Op(F.Displace, alpha=complex(*p["alpha"]) if isinstance(p["alpha"], (list, tuple)) else p["alpha"])
        if name == "Squeeze":
            return Op(F.Squeeze, zeta=complex(*p["zeta"]) if isinstance(p["zeta"], (list, tuple)) else p["zeta"])
        if name == "FCustom":
            d = self.fock_dim(targets[0]) + int(p.get("grow", 0))
            return Op(F.Custom, operator=jnp.array(OT.fixed_unitary(d, p.get("tag", 1))))
        if name == "FLower":      # the lowering operator through the non-renormalising Custom type
            d = self.fock_dim(targets[0])
            return Op(F.Custom, operator=jnp.array(OT.destroy(d)))
        if name == "FLowerX":     # ... and through an Expression
            from photon_weave._math.ops import annihilation_operator
            return Op(F.Expresion, expr=("s_mult", 1.0, "a"), context={"a": lambda dims: annihilation_operator(dims[0])})
        if name == "FExpr":
            from photon_weave._math.ops import number_operator
            ctx = {"n": lambda dims: number_operator(dims[0])}
            return Op(F.Expresion, expr=("expm", ("s_mult", 1j, float(p.get("t", 0.7)), "n")), context=ctx)
        if name == "QCustom":
            d = int(self.objs[targets[0]].dimensions)
            return Op(Q.Custom, operator=jnp.array(OT.nonunitary(d, p.get("tag", 2))))
        if name == "QExpr":
            d = int(self.objs[targets[0]].dimensions)
            g = OT._fixed_complex(d, d, 3)
            g = jnp.array(g + g.conj().T)
            ctx = {"g": lambda dims: g}
            return Op(Q.Expresion, expr=("expm", ("s_mult", 1j, 0.4, "g")), context=ctx)
        if name == "CX":
            return Op(Cc.CXPolarization)
        if name == "CZ":
            return Op(Cc.CZPolarization)
        if name == "SWAP":
            return Op(Cc.SwapPolarization)
        if name == "CSWAP":
            return Op(Cc.CSwapPolarization)
        if name == "BS":
            return Op(Cc.NonPolarizingBeamSplitter, eta=p["eta"])
        if name in ("XFP", "XPQ", "XFF", "XID"):
            from photon_weave._math.ops import number_operator, x_operator, z_operator
            types = tuple({"F": E.Fock, "P": E.Polarization, "Q": E.CustomState}[self.kinds[t]] for t in targets)
            if name == "XFP":   # (Fock, Polarization): expm(i 0.4 n (x) X)
                ctx = {"n": lambda dims: number_operator(dims[0]), "x": lambda dims: x_operator()}
                expr = ("expm", ("s_mult", 1j, 0.4, ("kron", "n", "x")))
            elif name == "XFF":  # (Fock, Fock): expm(i 0.3 n (x) n.n)
                ctx = {"n0": lambda dims: number_operator(dims[0]), "n1": lambda dims: number_operator(dims[1])}
                expr = ("expm", ("s_mult", 1j, 0.3, ("kron", "n0", ("m_mult", "n1", "n1"))))
            elif name == "XPQ":  # (Polarization, CustomState): expm(i 0.5 Z (x) G)
                d = int(self.objs[targets[1]].dimensions)
                g = OT._fixed_complex(d, d, 4)
                g = jnp.array(g + g.conj().T)
                ctx = {"z": lambda dims: z_operator(), "g": lambda dims: g}
                expr = ("expm", ("s_mult", 1j, 0.5, ("kron", "z", "g")))
            else:               # identity on any operand tuple: forces the structural side effects only
                eyes = []
                ctx = {}
                for i, t in enumerate(targets):
                    if self.kinds[t] == "F":
                        ctx[f"i{i}"] = (lambda i: (lambda dims: jnp.eye(dims[i])))(i)
                    else:
                        dd = int(self.objs[t].dimensions)
                        ctx[f"i{i}"] = (lambda dd: (lambda dims: jnp.eye(dd)))(dd)
                    eyes.append(f"i{i}")
                expr = ("kron", *eyes) if len(eyes) > 1 else eyes[0]
            return Op(Cc.Expression, expr=expr, context=ctx, state_types=types)
        raise KeyError(name)

    def impl_dims(self, targets):
        return [int(self.objs[t].dimensions) for t in targets]

    def kraus_ops(self, name, targets, params=None):
        """Kraus / measurement operators at the implementation's current dimensions (numpy)."""
        p = params or {}
        d = self.impl_dims(targets)
        n = int(np.prod(d))
        if name == "dephase":
            return OT.dephasing(p.get("p", 0.3))
        if name == "ampdamp":
            return OT.amplitude_damping(p.get("g", 0.36))
        if name == "loss":
            return OT.photon_loss(n, p.get("g", 0.36))
        if name == "dil2":
            return OT.dilation_kraus(n, 2, p.get("tag", 6))
        if name == "dil3":
            return OT.dilation_kraus(n, 3, p.get("tag", 7))
        if name == "ident":
            return [np.eye(n, dtype=complex)]
        if name == "weak":      # unitary that rotates |0,H> slightly into |2,V> (weak Fock-polarization entanglement)
            eps = p.get("eps", 2e-5)
            th = np.arcsin(np.sqrt(eps))
            assert len(d) == 2 and d[0] >= 3 and d[1] == 2, d
            g = np.zeros((n, n), dtype=complex)
            i0, i1 = 0 * 2 + 0, 2 * 2 + 1
            g[i1, i0], g[i0, i1] = 1, -1
            return [OT.expm(th * g)]
        if name == "uni":       # a single unitary Kraus operator (entangles the addressed subsystems)
            return [OT.fixed_unitary(n, p.get("tag", 11))]
        if name == "proj":      # projective, complete: |0><0| , 1-|0><0|
            a = np.zeros((n, n), dtype=complex)
            a[0, 0] = 1
            return [a, np.eye(n, dtype=complex) - a]
        if name == "projfull":  # one projector per basis state
            out = []
            for i in range(n):
                a = np.zeros((n, n), dtype=complex)
                a[i, i] = 1
                out.append(a)
            return out
        if name == "diag":      # non-projective diagonal pair
            w = np.linspace(0.7, 0.2, n)
            return [np.diag(np.sqrt(w)).astype(complex), np.diag(np.sqrt(1 - w)).astype(complex)]
        # fault menus (C17)
        if name == "nontp-complex":
            # not trace preserving, but sum K^T K = I: only a check that forgets the conjugate accepts it
            t = 0.4
            k2 = np.array([[np.cosh(t), 1j * np.sinh(t)], [-1j * np.sinh(t), np.cosh(t)]], dtype=complex)
            if n % 2:
                return [np.eye(n, dtype=complex) * 1.1]
            pos = d.index(2) if 2 in d else None
            if pos is None:
                return [np.kron(k2, np.eye(n // 2))]
            left = int(np.prod(d[:pos]))
            right = int(np.prod(d[pos + 1:]))
            return [np.kron(np.kron(np.eye(left), k2), np.eye(right))]
        if name == "nontp":
            ks = OT.dilation_kraus(n, 2, 8)
            return [ks[0], 0.5 * ks[1]]
        if name == "wrongsize+":
            return OT.dilation_kraus(n + 1, 2, 9)
        if name == "wrongsize-":
            return OT.dilation_kraus(max(1, n - 1), 2, 9)
        raise KeyError(name)

    # ---------------------------------------------------------------- action application
    def _entry(self, entry):
        if entry == "state":
            return "state", None
        k, r = entry.split(":")
        return k, self.objs[r]

    def apply(self, action, script=(), timeout=ACTION_TIMEOUT):
        """Execute one action through the public API.  Returns Result.
        A call that does not return within `timeout` seconds is reported as symptom
        exception:ActionTimeout (livelock verdict), see DESIGN C10 `terminate`."""
        import signal
        import threading
        self.activate()
        SAMPLER.begin(script)
        res = Result()
        if action[0] == "op" and action[3] == "FLowerX" and timeout:
            timeout = min(timeout, 8.0)      # known to hang (KF-C17-2): do not spend the full budget on it
        use_alarm = timeout and threading.current_thread() is threading.main_thread()
        if use_alarm:
            def _on_alarm(sig, frm):
                raise ActionTimeout(f"call did not return within {timeout} s")
            old_handler = signal.signal(signal.SIGALRM, _on_alarm)
            # re-armed every second after the first expiry: third-party code (e.g. JAX's compilation cache)
            # may swallow the exception once, it must not be able to swallow the verdict
            old_timer = signal.setitimer(signal.ITIMER_REAL, timeout, 1.0)
        try:
            try:
                res.value = self._do(action)
            finally:
                if use_alarm:
                    signal.setitimer(signal.ITIMER_REAL, 0)
        except BaseException as ex:  # noqa: BLE001 - every library failure is an observation
            if isinstance(ex, (KeyboardInterrupt, SystemExit, MemoryError)):
                raise
            res.ok = False
            res.exc_type = type(ex).__name__
            res.exc_where = _frames_where(ex.__traceback__)
            res.exc_msg = str(ex)[:200]
        finally:
            if use_alarm:
                signal.signal(signal.SIGALRM, old_handler)
                if old_timer and old_timer[0] > 0:
                    signal.setitimer(signal.ITIMER_REAL, old_timer[0])
        res.calls = SAMPLER.calls
        self.capture()
        self._ids = None
        return res

    def _do(self, a):
        kind = a[0]
        O = self.objs
        if kind == "op":
            _, entry, targets, name, params = a
            op = self.make_operation(name, params, targets)
            return self._apply_op(op, entry, targets)
        if kind == "kraus":
            _, entry, targets, name, params = a
            ks = [jnp.array(k) for k in self.kraus_ops(name, targets, params)]
            ek, eo = self._entry(entry)
            if ek == "state":
                return O[targets[0]].apply_kraus(ks)
            return eo.apply_kraus(ks, *[O[t] for t in targets])
        if kind == "measure":
            _, entry, targets, sep, destr = a
            ek, eo = self._entry(entry)
            if ek == "state":
                out = O[targets[0]].measure(separate_measurement=sep, destructive=destr)
            else:
                out = eo.measure(*[O[t] for t in targets], separate_measurement=sep, destructive=destr)
            return self._outcomes(out)
        if kind == "povm":
            _, entry, targets, name, destr, partial = a
            ms = [jnp.array(k) for k in self.kraus_ops(name, targets)]
            ek, eo = self._entry(entry)
            if ek == "state":
                out = O[targets[0]].measure_POVM(ms, destructive=destr, partial=partial)
            else:
                out = eo.measure_POVM(ms, *[O[t] for t in targets], destructive=destr)
            return (int(out[0]), self._outcomes(out[1]))
        if kind == "env_combine":
            return O[a[1]].combine()
        if kind == "env_reorder":
            return O[a[1]].reorder(*[O[t] for t in a[2]])
        if kind == "expand":
            _, entry, targets = a
            ek, eo = self._entry(entry)
            if ek == "state":
                return O[targets[0]].expand()
            if ek == "env":
                return eo.expand()
            return eo.expand(*[O[t] for t in targets])
        if kind == "contract":
            _, entry, targets, final = a
            lvl = {"L": E.ExpansionLevel.Label, "V": E.ExpansionLevel.Vector}[final]
            ek, eo = self._entry(entry)
            if ek == "state":
                return O[targets[0]].contract(final=lvl)
            if ek == "env":
                return eo.contract()
            return eo.contract(*[O[t] for t in targets])
        if kind == "ce_combine":
            return O[a[1]].combine(*[O[t] for t in a[2]])
        if kind == "ce_reorder":
            return O[a[1]].reorder(*[O[t] for t in a[2]])
        if kind == "ce_new":
            _, h, args = a
            obj = E.CompositeEnvelope(*[O[x] for x in args])
            O[h] = obj
            self.kinds[h] = "H"
            return None
        if kind == "trace_out":
            _, entry, targets = a
            ek, eo = self._entry(entry)
            if ek == "state":
                v = O[targets[0]].trace_out()
            else:
                v = eo.trace_out(*[O[t] for t in targets])
            return self._plain(v)
        if kind == "resize":
            _, entry, target, n = a
            ek, eo = self._entry(entry)
            if ek == "state":
                return O[target].resize(n)
            if ek == "env":
                return eo.resize_fock(n)
            return eo.resize_fock(n, O[target])
        if kind == "set_contraction":
            E.Config().set_contraction(bool(a[1]))
            return None
        # ---- C15: long-lived operation slots
        if kind == "slot_new":
            _, slot, name, params, targets = a
            self.slots[slot] = self.make_operation(name, params, targets)
            return None
        if kind == "slot_apply":
            _, slot, entry, targets = a
            return self._apply_op(self.slots[slot], entry, targets)
        raise KeyError(kind)

    def _apply_op(self, op, entry, targets):
        O = self.objs
        ek, eo = self._entry(entry)
        if ek == "state":
            return O[targets[0]].apply_operation(op)
        return eo.apply_operation(op, *[O[t] for t in targets])

    def _outcomes(self, out):
        """Outcome dictionary -> list of (role, value) by identity, preserving duplicates."""
        if not isinstance(out, dict):
            return ("not-a-dict", repr(type(out)))
        return [(self.role(k), int(v)) for k, v in out.items()]

    @staticmethod
    def _plain(v):
        if isinstance(v, E.PolarizationLabel):
            return ("plabel", v.value)
        if isinstance(v, (int, np.integer)) and not isinstance(v, bool):
            return ("label", int(v))
        try:
            return ("array", np.asarray(v))
        except Exception:  # pragma: no cover
            return ("other", repr(v))
