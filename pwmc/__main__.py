"""CLI:  python -m pwmc <ID> [--tier quick|thorough] [--replay FILE] [--procs N] [--triage]"""
import argparse
import json
import os
import sys
import time

EXPLORER_PROPS = ("C01", "C02", "C03", "C04", "C05", "C06", "C07", "C08", "C09", "C10", "C11", "C13", "C17", "C18", "C20")

ASSUMPTIONS = [
    "JAX, numpy, scipy and the Python runtime are trusted",
    "states are the histories of the stated alphabet up to the stated depth from the stated seeds; nothing beyond is claimed",
    "numerical equality is up to 1e-6 on density-matrix entries and probabilities",
    "states reached through a violating transition (of any property) are not expanded (poisoning)",
]


def run_explorer(prop, tier, seed, procs, triage):
    from . import report
    from .explorer import explore

    spec, stats, violations, errors = explore(prop, tier, seed, nproc=procs)
    if errors:
        for h, e in errors[:5]:
            print("HARNESS-ERROR", json.dumps(h, default=str)[:300])
            print(e)
        print(f"{len(errors)} harness errors - results are not trustworthy")
        return 2
    extra_cov = {}
    if prop == "C10":
        from . import c10auto
        v2, extra_cov, errs = c10auto.run_grid(tier, seed)
        if errs:
            print("HARNESS-ERROR", errs[0])
            return 2
        violations = list(violations) + v2
        stats["leaves"] += extra_cov["auto_dimension_cases"]
    groups = report.group_violations(violations, prop)
    if triage:
        allg = {}
        for v in violations:
            allg.setdefault(v["sig"]["property"], 0)
            allg[v["sig"]["property"]] += 1
        print("violating transitions by property (all monitors):", allg)
        for op_ in sorted(allg):
            if op_ == prop:
                continue
            for g in report.group_violations(violations, op_)[:12]:
                print("   OTHER", op_, g["sig"]["clause"], g["sig"]["kind"], g["sig"]["name"], g["sig"]["entry"], g["sig"]["loc"],
                      g["sig"]["level"], g["sig"]["symptom"], "x", g["count"], "|", str(g["detail"])[:120])
                print("        ", json.dumps(g["witness"]["history"])[:400])
    code, used, new = report.conclude(prop, groups)
    samples = []
    # a few actual histories (deepest states explored) written out
    for g in groups[:2]:
        samples.append({"violating_history": g["witness"]["history"], "signature": g["sig"]})
    coverage = {
        "states": stats["states"],
        "transitions": stats["transitions"],
        "traces_validated_against_impl": stats["transitions"],
        "evaluations": stats["leaves"],
        "probe_transitions": stats["probes"],
        "distinct_nontrivial": stats["nontrivial"],
        "rule": "a state is a canonical (exact-bytes) implementation object graph reached by a history of the core "
                "alphabet; non-trivial = holds at least one non-label block that is entangled, mixed or has complex "
                "amplitudes (counted per distinct state)",
        "depth_bound_completed": stats["depth_completed"],
        "depth_bound_requested": spec["depth"],
        "per_depth": stats["per_depth"],
        "exhaustive": bool(stats["exhaustive"] and stats["depth_completed"] >= spec["depth"] - 0),
        "caps_hit": stats["caps"],
        "outcome_trees_capped": stats["capped"],
        "skipped_reference_overflow": stats["overflow"],
        "requests_not_enabled": stats["skipped_disabled"],
        "twin_transitions_compared": stats["twin_compared"],
        "twin_transitions_skipped": stats["twin_skipped"],
        "distinct_layouts": len(stats["layouts"]),
        "states_with": stats["flags"],
        "distinct_observed_results_per_kind": {k: len(v) for k, v in stats["outcomes"].items()},
        "poisoned_transitions_by_property": stats["poisoned"],
        "known_findings_matched": {k: u["count"] for k, u in used.items()},
        "worlds": [w[0] for w in spec["worlds"]],
        "reference_cutoff": spec["D"],
        "samples": samples or [{"note": "no violating history; sample of explored worlds", "worlds": [w[0] for w in spec["worlds"]]}],
    }
    coverage["samples"] = (samples + (stats.get("sample_histories") or [])) or coverage["samples"]
    coverage.update(extra_cov)
    report.write_evidence(prop, tier, seed, "model_checking" if prop != "C17" else "fault_enumeration",
                          coverage, stats["wall_s"], len(new), ASSUMPTIONS)
    print(f"[{prop}] tier={tier} seed={seed} states={stats['states']} transitions={stats['transitions']} "
          f"nontrivial_states={stats['nontrivial']} depth={stats['depth_completed']}/{spec['depth']} "
          f"exhaustive={coverage['exhaustive']} known={len(used)} new={len(new)} wall={stats['wall_s']:.0f}s")
    return code


def main():
    ap = argparse.ArgumentParser()
    ap.add_argument("prop")
    ap.add_argument("--tier", default=os.environ.get("VERIF_TIER", "quick"))
    ap.add_argument("--replay")
    ap.add_argument("--procs", type=int, default=None)
    ap.add_argument("--triage", action="store_true")
    args = ap.parse_args()
    seed = int(os.environ.get("VERIF_SEED", "0") or 0)
    tier = args.tier if args.tier in ("quick", "thorough") else "quick"
    if args.replay:
        from .replay import replay_file
        sys.exit(replay_file(args.replay))
    if args.prop in EXPLORER_PROPS:
        sys.exit(run_explorer(args.prop, tier, seed, args.procs, args.triage))
    from . import standalone
    sys.exit(standalone.run(args.prop, tier, seed))


if __name__ == "__main__":
    main()
