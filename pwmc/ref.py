"""Dense reference simulator: one density matrix over all live subsystems (plain numpy).

It knows nothing about containers, levels or indices - only which subsystems exist, their
(reference) dimensions, and the joint state.  All operators are supplied as numpy arrays.
"""
import numpy as np


class Ref:
    def __init__(self, names, dims, kinds, env_of):
        self.names = list(names)          # canonical order of LIVE subsystems
        self.dims = dict(dims)            # name -> reference dimension
        self.kinds = dict(kinds)          # name -> 'F' | 'P' | 'Q'
        self.env_of = dict(env_of)        # name -> envelope role or None
        self.dead = set()                 # destructively measured
        n = int(np.prod([self.dims[s] for s in self.names])) if self.names else 1
        self.rho = np.zeros((n, n), dtype=complex)
        self.rho[0, 0] = 1.0

    # ------------------------------------------------------------------ helpers
    def copy(self):
        r = Ref.__new__(Ref)
        r.names = list(self.names)
        r.dims = dict(self.dims)
        r.kinds = dict(self.kinds)
        r.env_of = dict(self.env_of)
        r.dead = set(self.dead)
        r.rho = self.rho.copy()
        return r

    def shape(self):
        return [self.dims[s] for s in self.names]

    def _tensor(self):
        sh = self.shape()
        return self.rho.reshape(sh + sh)

    def set_product(self, vecs):
        """vecs: name -> state vector (1-D) ; sets rho to the product of pure states."""
        psi = np.array([1.0 + 0j])
        for s in self.names:
            psi = np.kron(psi, np.asarray(vecs[s], dtype=complex))
        self.rho = np.outer(psi, psi.conj())

    def partner(self, s):
        e = self.env_of.get(s)
        if e is None:
            return None
        for t, et in self.env_of.items():
            if et == e and t != s:
                return t
        return None

    def alive(self, s):
        return s in self.names

    # ------------------------------------------------------------------ linear maps
    def _apply_left(self, t, op, axes_idx):
        """t: tensor with 2k axes (k = len(names)); apply op (on the listed subsystems, in
        the listed order) on the row side."""
        k = len(self.names)
        d = [self.dims[self.names[i % k]] for i in axes_idx]
        opt = np.asarray(op, dtype=complex).reshape(d + d)
        m = len(axes_idx)
        # contract op's input axes with t's row axes
        res = np.tensordot(opt, t, axes=(list(range(m, 2 * m)), list(axes_idx)))
        # res axes: op-out (m) + remaining axes of t in order
        remaining = [a for a in range(2 * k) if a not in axes_idx]
        order = [None] * (2 * k)
        for j, a in enumerate(axes_idx):
            order[a] = j
        for j, a in enumerate(remaining):
            order[a] = m + j
        return np.transpose(res, order)

    def _sandwich(self, op, targets):
        k = len(self.names)
        idx = [self.names.index(s) for s in targets]
        t = self._tensor()
        t = self._apply_left(t, op, idx)
        # right side: rho -> rho op^dagger : act with conj(op) on column axes
        t = self._apply_left(t, np.conj(op), [i + k for i in idx])
        n = self.rho.shape[0]
        return t.reshape(n, n)

    def apply_op(self, op, targets, renormalise):
        new = self._sandwich(op, targets)
        tr = np.trace(new).real
        if renormalise:
            if tr <= 1e-14:
                raise ZeroDivisionError("operation annihilates the state")
            new = new / tr
        self.rho = new
        return tr

    def apply_kraus(self, ks, targets):
        new = np.zeros_like(self.rho)
        for kop in ks:
            new = new + self._sandwich(kop, targets)
        self.rho = new

    def would_vanish(self, op, targets):
        return np.trace(self._sandwich(op, targets)).real <= 1e-12

    # ------------------------------------------------------------------ reductions
    def reduced(self, targets):
        """Partial trace onto `targets`, tensor factors in the given order."""
        k = len(self.names)
        idx = [self.names.index(s) for s in targets]
        t = self._tensor()
        letters = "abcdefghijklmnopqrstuvwxyzABCDEFGHIJKLMNOPQRSTUVWXYZ"
        rows = list(letters[:k])
        cols = list(letters[k:2 * k])
        for i in range(k):
            if i not in idx:
                cols[i] = rows[i]
        out = [rows[i] for i in idx] + [cols[i] for i in idx]
        r = np.einsum("".join(rows + cols) + "->" + "".join(out), t)
        n = int(np.prod([self.dims[s] for s in targets])) if targets else 1
        return r.reshape(n, n)

    def populations(self, s):
        return np.real(np.diag(self.reduced([s])))

    def max_occupation(self, s, tol=1e-12):
        p = self.populations(s)
        nz = np.nonzero(p > tol)[0]
        return int(nz[-1]) if len(nz) else 0

    def purity(self, targets=None):
        r = self.rho if targets is None else self.reduced(targets)
        return float(np.real(np.trace(r @ r)))

    # ------------------------------------------------------------------ measurement
    def outcome_probability(self, assign):
        """Joint probability of the basis outcomes {name: value}."""
        if not assign:
            return 1.0
        targets = list(assign)
        r = self.reduced(targets)
        d = [self.dims[s] for s in targets]
        flat = 0
        for s, dd in zip(targets, d):
            v = assign[s]
            if v < 0 or v >= dd:
                return 0.0
            flat = flat * dd + v
        return float(np.real(r[flat, flat]))

    def project(self, assign, destroy):
        """Project on the outcomes, renormalise; subsystems in `destroy` are removed
        (they are in a basis state after projection, so the trace is exact)."""
        p = self.outcome_probability(assign)
        for s, v in assign.items():
            d = self.dims[s]
            proj = np.zeros((d, d), dtype=complex)
            proj[v, v] = 1
            self.rho = self._sandwich(proj, [s])
        tr = np.trace(self.rho).real
        if tr > 0:
            self.rho = self.rho / tr
        for s in destroy:
            self.remove(s)
        return p

    def remove(self, s):
        keep = [t for t in self.names if t != s]
        self.rho = self.reduced(keep)
        self.names = keep
        self.dead.add(s)

    def povm_probability(self, ms, targets):
        out = []
        for m in ms:
            out.append(float(np.trace(self._sandwich(m, targets)).real))
        return out

    def povm_branch(self, ms, targets, i):
        new = self._sandwich(ms[i], targets)
        p = np.trace(new).real
        self.rho = new / p
        return p

    # ------------------------------------------------------------------ dimension change (leaf probes with big cut-offs)
    def repad(self, s, newdim):
        k = len(self.names)
        i = self.names.index(s)
        t = self._tensor()
        old = self.dims[s]
        if newdim >= old:
            pad = [(0, 0)] * (2 * k)
            pad[i] = (0, newdim - old)
            pad[i + k] = (0, newdim - old)
            t = np.pad(t, pad)
        else:
            sl = [slice(None)] * (2 * k)
            sl[i] = slice(0, newdim)
            sl[i + k] = slice(0, newdim)
            t = t[tuple(sl)]
        self.dims[s] = newdim
        n = int(np.prod(self.shape()))
        self.rho = t.reshape(n, n)

    # ------------------------------------------------------------------ self checks
    def sane(self, tol=1e-9):
        r = self.rho
        if not np.all(np.isfinite(r)):
            return "non-finite"
        if abs(np.trace(r).real - 1) > tol:
            return f"trace {np.trace(r).real}"
        if np.max(np.abs(r - r.conj().T)) > tol:
            return "not hermitian"
        return None
