"""C10 (b): automatic dimensioning before Displace / Squeeze / Expression.

Finite grid (enumerated completely): input states x storage locations x levels x operations.
Oracle: the same operator built independently at cut-off 80 applied to the same input.
Acceptance: the reduced state of the mode after the call has fidelity >= 1 - 1e-5 with the
cut-off-80 result (the documented truncation threshold is 1 - 1e-6 of the state; one order
of magnitude of slack), everything else in the world is untouched, the call returns.
"""
import multiprocessing as mp


def _pool_init():
    from .explorer import _watch_parent
    _watch_parent()

import os

import numpy as np
from scipy.linalg import expm, sqrtm

from . import optable as OT

BIG = 80
FID_TOL = 1e-5


def h01(d):
    u = np.eye(d, dtype=complex)
    u[0, 0] = u[0, 1] = u[1, 0] = 1 / np.sqrt(2)
    u[1, 1] = -1 / np.sqrt(2)
    return u


def m02(d):
    u = np.eye(d, dtype=complex)
    s = 1 / np.sqrt(2)
    u[0, 0] = s
    u[0, 2] = s
    u[2, 0] = 1j * s
    u[2, 2] = -1j * s
    return u


INPUTS = {
    "|0>": {"init": 0, "prep": []},
    "|1>": {"init": 1, "prep": []},
    "|2>": {"init": 2, "prep": []},
    "(|0>+|1>)/sqrt2": {"init": 0, "prep": [("custom", "h01")]},
    "(|0>+i|2>)/sqrt2": {"init": 0, "prep": [("custom", "m02")]},
    "mixed 0.64|1><1|+0.36|0><0|": {"init": 1, "prep": [("loss", 0.36)]},
}
LOCATIONS = ("own", "env", "ps")
LEVELS = ("V", "M")


def ops_grid(seed):
    from .standalone import seed_val
    al = [1.0, 2.0, -1.0, 1j, 0.5 - 1.2j, 1.5 * np.exp(2.1j), seed_val(seed, 0.2, 1.6) * np.exp(1j * seed_val(seed + 5, 0, 6.28))]
    ze = [0.3, -0.3, 0.5j, 0.8 * np.exp(1.0j), seed_val(seed, 0.05, 0.7) * np.exp(1j * seed_val(seed + 7, 0, 6.28))]
    g = [("Displace", complex(a)) for a in al] + [("Squeeze", complex(z)) for z in ze] + [("Expr", 0.4)]
    return g


def _big_operator(kind, par):
    a = OT.destroy(BIG)
    if kind == "Displace":
        return expm(par * a.conj().T - np.conj(par) * a), False
    if kind == "Squeeze":
        return expm(0.5 * (np.conj(par) * a @ a - par * a.conj().T @ a.conj().T)), True
    return expm(par * (a.conj().T - a)), False


def _fidelity(r, s):
    r = (r + r.conj().T) / 2
    s = (s + s.conj().T) / 2
    w, v = np.linalg.eigh(r)
    sr = (v * np.sqrt(np.clip(w, 0, None))) @ v.conj().T
    m = sr @ s @ sr
    lam = np.linalg.eigvalsh((m + m.conj().T) / 2)
    return float(np.sum(np.sqrt(np.clip(lam, 0, None))) ** 2)


def _case(args):
    inp, loc, lvl, kind, par = args
    from . import env as E
    import jax.numpy as jnp
    from photon_weave._math.ops import annihilation_operator, creation_operator
    from .observe import Obs
    from .world import World

    out = {"case": [inp, loc, lvl, kind, str(par)], "viol": None, "dims": None, "fid": None}
    try:
        E.reset_globals(contraction=False)
        spec = {"envs": ["A", "B"], "custom": {}, "handles": {"h1": ["A", "B"]},
                "init": {"A.f": INPUTS[inp]["init"], "A.f.dim": 4, "B.p": "R"}, "contraction": False}
        w = World.build(spec)
        f = w.objs["A.f"]
        # ---- prepare the input through the public API
        rho_in = np.zeros((BIG, BIG), dtype=complex)
        n0 = INPUTS[inp]["init"]
        rho_in[n0, n0] = 1
        w.activate()
        for what, arg in INPUTS[inp]["prep"]:
            if what == "custom":
                u = {"h01": h01, "m02": m02}[arg](4)
                f.apply_operation(E.Operation(E.FockOperationType.Custom, operator=jnp.array(u)))
                ub = np.eye(BIG, dtype=complex)
                ub[:4, :4] = u
                rho_in = ub @ rho_in @ ub.conj().T
            else:
                ks = OT.photon_loss(int(f.dimensions), arg)
                f.apply_kraus([jnp.array(k) for k in ks])
                kb = OT.photon_loss(BIG, arg)
                rho_in = sum(k @ rho_in @ k.conj().T for k in kb)
        if loc == "env":
            w.objs["A"].combine()
        elif loc == "ps":
            w.objs["h1"].combine(w.objs["A.f"], w.objs["B.p"])
        if lvl == "M":
            f.expand()
            if Obs(w).block_of("A.f").level != "M":
                f.expand()
        w.capture()
        o0 = Obs(w)
        b0 = o0.block_of("A.f")
        if b0 is None or b0.kind != loc:
            out["viol"] = ("harness", f"could not prepare location {loc}: {None if b0 is None else b0.kind}")
            return out
        # ---- the operation under test
        if kind == "Displace":
            op = E.Operation(E.FockOperationType.Displace, alpha=par)
        elif kind == "Squeeze":
            op = E.Operation(E.FockOperationType.Squeeze, zeta=par)
        else:
            ctx = {"a": lambda dims: annihilation_operator(dims[0]), "a_dag": lambda dims: creation_operator(dims[0])}
            op = E.Operation(E.FockOperationType.Expresion, expr=("expm", ("s_mult", par, ("sub", "a_dag", "a"))), context=ctx)
        import signal

        def _alarm(sig, frm):
            raise TimeoutError("automatic dimensioning did not terminate within 120 s")
        signal.signal(signal.SIGALRM, _alarm)
        signal.alarm(120)
        try:
            f.apply_operation(op)
        finally:
            signal.alarm(0)
        w.capture()
        o1 = Obs(w)
        d = int(f.dimensions)
        out["dims"] = d
        U, ren = _big_operator(kind, par)
        ref = U @ rho_in @ U.conj().T
        if ren:
            ref = ref / np.trace(ref)
        names = ["A.f"]
        rho, why = o1.joint(["A.f", "A.p", "B.f", "B.p"], {"A.f": BIG, "A.p": 2, "B.f": 3, "B.p": 2})
        if rho is None:
            out["viol"] = ("auto", "unreadable:" + str(why))
            return out
        t = rho.reshape(BIG, 2, 3, 2, BIG, 2, 3, 2)
        red = np.einsum("abcdebcd->ae", t)
        tr = float(np.real(np.trace(red)))
        if abs(tr - 1) > 1e-6 and ren:
            out["viol"] = ("auto", f"trace {tr:.8f} after a renormalising operation")
            return out
        fid = _fidelity(red / tr, ref / np.trace(ref))
        out["fid"] = fid
        lost = 1 - tr if not ren else 0.0
        if fid < 1 - FID_TOL or lost > 1e-5:
            out["viol"] = ("auto", f"fidelity with the cut-off-{BIG} result {fid:.8f} (dims chosen {d}, norm kept {tr:.8f})")
        # the rest of the world must be untouched: other subsystems in their initial states
        rest = np.einsum("abcdafgh->bcdfgh", t).reshape(12, 12) / tr
        want = np.zeros(12, dtype=complex)
        r_vec = np.array([1, 1j]) / np.sqrt(2)
        want = np.kron(np.kron(np.array([1, 0], dtype=complex), np.array([1, 0, 0], dtype=complex)), r_vec)
        if np.max(np.abs(rest - np.outer(want, want.conj()))) > 1e-6 and out["viol"] is None:
            out["viol"] = ("auto", "bystander subsystems changed")
    except TimeoutError as ex:
        out["viol"] = ("terminate", str(ex))
    except Exception as ex:  # noqa: BLE001
        import traceback
        tb = traceback.extract_tb(ex.__traceback__)
        where = [f.name for f in tb if "/photon_weave/" in f.filename]
        out["viol"] = ("raise", f"exception:{type(ex).__name__}@{where[-1] if where else 'harness'}: {str(ex)[:100]}")
    return out


def run_grid(tier, seed):
    """-> (violations as judge-style dicts, coverage dict)"""
    grid = ops_grid(seed)
    inputs = list(INPUTS)
    if tier == "quick":
        levels = LEVELS
        cases = [(i, l, v, k, p) for i in inputs for l in LOCATIONS for v in levels for k, p in grid
                 if not (l != "own" and v == "M" and i in ("|2>", "(|0>+i|2>)/sqrt2"))]
    else:
        cases = [(i, l, v, k, p) for i in inputs for l in LOCATIONS for v in LEVELS for k, p in grid]
    ctx = mp.get_context("spawn")
    nproc = int(os.environ.get("PWMC_PROCS", min(16, os.cpu_count() or 1)))
    viol = []
    fids = []
    errors = []
    with ctx.Pool(nproc, initializer=_pool_init) as pool:
        for r in pool.imap_unordered(_case, cases, chunksize=2):
            if r["fid"] is not None:
                fids.append(r["fid"])
            if r["viol"]:
                cl, txt = r["viol"]
                if cl == "harness":
                    errors.append(r)
                    continue
                inp, loc, lvl, kind, par = r["case"]
                sym = "low-fidelity" if cl == "auto" and txt.startswith("fidelity") else (txt.split(":")[0] + (":" + txt.split(":")[1].split(":")[0] if cl == "raise" else "") if cl == "raise" else cl)
                if cl == "raise":
                    sym = txt.split(": ")[0]
                sig = {"property": "C10", "clause": cl, "kind": "op", "name": kind, "entry": "state", "tkinds": "F",
                       "loc": loc, "level": lvl, "contraction": False, "symptom": sym}
                viol.append({"sig": sig, "detail": f"{kind}({par}) on {inp}: {txt}",
                             "witness": {"world": "C10auto", "history": [], "engine": "C10auto", "program": r["case"]}})
    cov = {"auto_dimension_cases": len(cases), "auto_dimension_min_fidelity": min(fids) if fids else None,
           "auto_dimension_grid": {"inputs": inputs, "locations": list(LOCATIONS), "levels": list(LEVELS),
                                   "operations": [[k, str(p)] for k, p in grid]}}
    return viol, cov, errors
