"""Checks whose state space degenerates to a finite input grid (C12, C16, C19) and the
dedicated drivers (C08 twin, C14, C15, C18).  Each enumerates its space completely."""
import itertools
import json
import math
import os
import time

import numpy as np

from . import optable as OT
from . import report


def _sig(prop, clause, name, symptom):
    return {"property": prop, "clause": clause, "kind": "input", "name": name, "entry": "-", "tkinds": "",
            "loc": "", "level": "", "contraction": True, "symptom": symptom}


class Collector:
    def __init__(self, prop, engine):
        self.prop = prop
        self.engine = engine
        self.viol = []
        self.evals = 0
        self.distinct = set()
        self.samples = []

    def case(self, key, nontrivial=True):
        if not isinstance(key, (str, int)):
            key = json.dumps(key, default=str, sort_keys=True)
        self.evals += 1
        if nontrivial:
            self.distinct.add(key)
        if len(self.samples) < 6 and self.evals % 37 == 1:
            self.samples.append(key)

    def bad(self, clause, name, symptom, detail, case):
        self.viol.append({"sig": _sig(self.prop, clause, name, symptom), "detail": detail,
                          "witness": {"world": "-", "history": [], "engine": self.engine, "program": case}})

    def finish(self, tier, seed, level, rule, t0, extra=None, assumptions=None):
        groups = report.group_violations(self.viol, self.prop)
        code, used, new = report.conclude(self.prop, groups)
        cov = {"evaluations": self.evals, "distinct_nontrivial": len(self.distinct), "rule": rule,
               "samples": [str(s) for s in self.samples] or ["(none)"], "exhaustive": True,
               "known_findings_matched": {k: u["count"] for k, u in used.items()}}
        if extra:
            cov.update(extra)
        report.write_evidence(self.prop, tier, seed, level, cov, time.time() - t0, len(new),
                              assumptions or ["JAX, numpy, scipy and the Python runtime are trusted",
                                              "the finite grid stated in `rule` is enumerated completely; values outside it are not covered"])
        print(f"[{self.prop}] tier={tier} seed={seed} evaluations={self.evals} distinct={len(self.distinct)} "
              f"known={len(used)} new={len(new)} wall={time.time() - t0:.0f}s")
        return code


def seed_val(seed, lo, hi):
    x = ((seed * 2654435761) % 1000003) / 1000003.0
    return round(lo + (hi - lo) * x, 6)


# ======================================================================================
# C12  operator library


def run_c12(tier, seed):
    from . import env as E
    import jax.numpy as jnp
    from photon_weave._math import ops

    t0 = time.time()
    C = Collector("C12", "C12")
    q = tier == "quick"
    angles = [-7.3, -math.pi, -0.4, 0.0, 0.4, math.pi / 2, math.pi, 2 * math.pi + 0.9, seed_val(seed, -6.0, 6.0)]
    alphas = [0.0, 1.0, 2.0, -1.0, 1j, 0.5 - 1.2j, 1.5 * np.exp(2.1j), seed_val(seed, 0.1, 1.5) * np.exp(1j * seed_val(seed + 1, 0, 6.28))]
    zetas = [0.0, 0.3, -0.3, 0.5j, 0.8 * np.exp(1.0j), seed_val(seed, 0.05, 0.7) * np.exp(1j * seed_val(seed + 2, 0, 6.28))]
    cutoffs = list(range(1, 13)) + ([] if q else [24, 40])
    tol = 1e-9

    def cmp(clause, name, got, want, case, tol=tol):
        C.case((name, case))
        got = np.asarray(got)
        want = np.asarray(want)
        if got.shape != want.shape:
            C.bad(clause, name, "wrong-shape", f"{got.shape} vs {want.shape}", case)
            return False
        d = float(np.max(np.abs(got - want))) if got.size else 0.0
        if not np.isfinite(d) or d > tol:
            C.bad(clause, name, "mismatch", f"max|got-want|={d:.3e}", case)
            return False
        return True

    fixed = {"identity_operator": OT.I2, "hadamard_operator": OT.H, "x_operator": OT.X, "y_operator": OT.Y,
             "z_operator": OT.Z, "s_operator": OT.S, "t_operator": OT.T, "sx_operator": OT.SX,
             "controlled_not_operator": OT.CX, "controlled_z_operator": OT.CZ, "swap_operator": OT.SWAP,
             "controlled_swap_operator": OT.CSWAP}
    for n, want in fixed.items():
        got = getattr(ops, n)()
        cmp(n + ".matrix", n, got, want, {"fn": n})
        g = np.asarray(got).astype(complex)
        cmp("unitary", n, g @ g.conj().T, np.eye(g.shape[0]), {"fn": n, "identity": "U U^+ = 1"})
    for n, ref in (("rx_operator", OT.RX), ("ry_operator", OT.RY), ("rz_operator", OT.RZ)):
        for th in angles:
            got = np.asarray(getattr(ops, n)(th))
            cmp(n + ".matrix", n, got, ref(th), {"fn": n, "theta": th})
            cmp("unitary", n, got @ got.conj().T, np.eye(2), {"fn": n, "theta": th, "identity": "unitary"})
        for t1, t2 in itertools.product(angles, angles):
            a = np.asarray(getattr(ops, n)(t1)) @ np.asarray(getattr(ops, n)(t2))
            cmp("additivity", n, a, np.asarray(getattr(ops, n)(t1 + t2)), {"fn": n, "t1": t1, "t2": t2})
    grid3 = angles if not q else angles[1:8:2] + angles[-1:]
    for ph, th, om in itertools.product(grid3, grid3, grid3):
        got = np.asarray(ops.u3_operator(ph, th, om))
        cmp("u3_operator.matrix", "u3_operator", got, OT.U3(ph, th, om), {"phi": ph, "theta": th, "omega": om})
        cmp("unitary", "u3_operator", got @ got.conj().T, np.eye(2), {"phi": ph, "theta": th, "omega": om, "identity": "unitary"})
    psign = None
    for d in cutoffs:
        a = np.asarray(ops.annihilation_operator(d))
        ad = np.asarray(ops.creation_operator(d))
        cmp("annihilation_operator.matrix", "annihilation_operator", a, OT.destroy(d), {"cutoff": d})
        cmp("creation_operator.matrix", "creation_operator", ad, OT.create(d), {"cutoff": d})
        cmp("number_operator.matrix", "number_operator", np.asarray(ops.number_operator(d)), OT.number(d), {"cutoff": d})
        for n in range(d):
            v = np.zeros(d, dtype=complex)
            v[n] = 1
            want = np.zeros(d, dtype=complex)
            if n >= 1:
                want[n - 1] = math.sqrt(n)
            cmp("ladder", "annihilation_operator", a @ v, want, {"cutoff": d, "n": n, "identity": "a|n>=sqrt(n)|n-1>"})
        if d >= 2:
            comm = (a @ ad - ad @ a)[:d - 1, :d - 1]
            cmp("commutator", "annihilation_operator", comm, np.eye(d - 1), {"cutoff": d, "identity": "[a,a+]=1 below cutoff"})
        for th in angles:
            got = np.asarray(ops.phase_operator(d, th))
            if psign is None and d >= 2 and abs(th - 0.4) < 1e-12:
                psign = 1 if abs(got[1, 1] - np.exp(1j * th)) < abs(got[1, 1] - np.exp(-1j * th)) else -1
            sg = psign if psign is not None else 1
            # ambiguity (ii): accept either documented sign, but the same one everywhere
            ok_p = np.max(np.abs(got - OT.phase(d, th))) <= tol
            ok_m = np.max(np.abs(got - OT.phase(d, -th))) <= tol
            C.case(("phase_operator", d, th))
            if not (ok_p or ok_m):
                C.bad("phase_operator.matrix", "phase_operator", "mismatch", "neither exp(+i n theta) nor exp(-i n theta)", {"cutoff": d, "theta": th})
            elif psign is not None and d >= 2 and abs(math.sin(th)) > 1e-6 and not (ok_p if psign == 1 else ok_m):
                C.bad("phase_operator.matrix", "phase_operator", "sign-inconsistent", "sign convention differs between calls", {"cutoff": d, "theta": th})
        for al in alphas:
            got = np.asarray(ops.displacement_operator(d, al))
            cmp("displacement_operator.matrix", "displacement_operator", got, OT.displace(d, al), {"cutoff": d, "alpha": str(al)}, 1e-8)
            cmp("unitary", "displacement_operator", got @ got.conj().T, np.eye(d), {"cutoff": d, "alpha": str(al), "identity": "unitary"}, 1e-8)
        for ze in zetas:
            got = np.asarray(ops.squeezing_operator(d, ze))
            cmp("squeezing_operator.matrix", "squeezing_operator", got, OT.squeeze(d, ze), {"cutoff": d, "zeta": str(ze)}, 1e-8)
            cmp("unitary", "squeezing_operator", got @ got.conj().T, np.eye(d), {"cutoff": d, "zeta": str(ze), "identity": "unitary"}, 1e-8)
    # closed forms at a large cut-off
    big = 40 if q else 60
    for al in alphas:
        v = np.asarray(ops.displacement_operator(big, al))[:, 0]
        cmp("coherent", "displacement_operator", v[:12], OT.coherent_amplitudes(al, 12), {"cutoff": big, "alpha": str(al), "identity": "D(alpha)|0> Poissonian"}, 1e-7)
    for ze in zetas:
        v = np.asarray(ops.squeezing_operator(big, ze))[:, 0]
        cmp("squeezed", "squeezing_operator", v[:10], OT.squeezed_vacuum_amplitudes(ze, 10), {"cutoff": big, "zeta": str(ze), "identity": "S(zeta)|0> even-number amplitudes"}, 1e-6)
    # ---- dispatch through Operation(...).operator at the dimension of the target
    P, F, Cc = E.PolarizationOperationType, E.FockOperationType, E.CompositeOperationType
    for n, want in (("I", OT.I2), ("X", OT.X), ("Y", OT.Y), ("Z", OT.Z), ("H", OT.H), ("S", OT.S), ("T", OT.T), ("SX", OT.SX)):
        op = E.Operation(getattr(P, n))
        op.compute_dimensions(0, jnp.array([0]))
        cmp("dispatch", "Polarization." + n, op.operator, want, {"type": n})
    for n, ref in (("RX", OT.RX), ("RY", OT.RY), ("RZ", OT.RZ)):
        for th in angles:
            op = E.Operation(getattr(P, n), theta=th)
            op.compute_dimensions(0, jnp.array([0]))
            cmp("dispatch", "Polarization." + n, op.operator, ref(th), {"type": n, "theta": th})
    for ph, th, om in itertools.product(angles[2:6], repeat=3):
        op = E.Operation(P.U3, phi=ph, theta=th, omega=om)
        op.compute_dimensions(0, jnp.array([0]))
        cmp("dispatch", "Polarization.U3", op.operator, OT.U3(ph, th, om), {"phi": ph, "theta": th, "omega": om})
    for d in cutoffs[:12]:
        for n, want in (("Creation", OT.create(d)), ("Annihilation", OT.destroy(d)), ("Identity", np.eye(d))):
            op = E.Operation(getattr(F, n))
            op.dimensions = [d]
            cmp("dispatch", "Fock." + n, op.operator, want, {"type": n, "dim": d})
        for al in alphas[1:]:
            op = E.Operation(F.Displace, alpha=al)
            op.dimensions = [d]
            cmp("dispatch", "Fock.Displace", op.operator, OT.displace(d, al), {"alpha": str(al), "dim": d}, 1e-8)
        for ze in zetas[1:]:
            op = E.Operation(F.Squeeze, zeta=ze)
            op.dimensions = [d]
            cmp("dispatch", "Fock.Squeeze", op.operator, OT.squeeze(d, ze), {"zeta": str(ze), "dim": d}, 1e-8)
        for th in angles:
            op = E.Operation(F.PhaseShift, phi=th)
            op.dimensions = [d]
            got = np.asarray(op.operator)
            C.case(("Fock.PhaseShift", d, th))
            sg = psign if psign is not None else 1
            if np.max(np.abs(got - OT.phase(d, sg * th))) > tol:
                C.bad("dispatch", "Fock.PhaseShift", "mismatch", "differs from phase_operator at this dimension", {"phi": th, "dim": d})
    for n, want in (("CXPolarization", OT.CX), ("CZPolarization", OT.CZ), ("SwapPolarization", OT.SWAP), ("CSwapPolarization", OT.CSWAP)):
        op = E.Operation(getattr(Cc, n))
        op.dimensions = [2] * (3 if n.startswith("CSwap") else 2)
        cmp("dispatch", "Composite." + n, op.operator, want, {"type": n})
    for d in ([2, 3, 4] if q else [2, 3, 4, 5, 6]):
        for eta in angles:
            op = E.Operation(Cc.NonPolarizingBeamSplitter, eta=eta)
            op.dimensions = [d, d]
            got = np.asarray(op.operator)
            cmp("dispatch", "Composite.BS", got, OT.beamsplitter(d, d, eta), {"eta": eta, "dim": d}, 1e-8)
            cmp("unitary", "Composite.BS", got @ got.conj().T, np.eye(d * d), {"eta": eta, "dim": d, "identity": "unitary"}, 1e-8)
    for d1, d2 in ([(2, 3), (3, 2), (2, 4), (4, 3)] if q else [(a_, b_) for a_ in range(1, 6) for b_ in range(1, 6) if a_ != b_]):
        for eta in angles[2:7]:
            op = E.Operation(Cc.NonPolarizingBeamSplitter, eta=eta)
            op.dimensions = [d1, d2]
            cmp("dispatch", "Composite.BS", op.operator, OT.beamsplitter(d1, d2, eta), {"eta": eta, "dims": [d1, d2]}, 1e-8)
    # one Operation object asked for its operator at a sequence of target dimensions (permuted, equal product)
    for eta in angles[2:6]:
        op = E.Operation(Cc.NonPolarizingBeamSplitter, eta=eta)
        for dd in ([2, 3], [3, 2], [4, 1], [2, 2], [1, 4], [3, 2], [2, 3]):
            op.dimensions = list(dd)
            cmp("dispatch", "Composite.BS(reused object)", op.operator, OT.beamsplitter(dd[0], dd[1], eta), {"eta": eta, "dims": dd, "reused": True}, 1e-8)
    for al in alphas[1:4]:
        op = E.Operation(F.Displace, alpha=al)
        for d in (3, 5, 3, 4):
            op.dimensions = [d]
            cmp("dispatch", "Fock.Displace(reused object)", op.operator, OT.displace(d, al), {"alpha": str(al), "dim": d, "reused": True}, 1e-8)
    return C.finish(tier, seed, "exploration",
                    "complete enumeration of: every constructor of _math/ops.py and every operation type via Operation(...).operator, "
                    f"angles {angles}, alpha {[str(a) for a in alphas]}, zeta {[str(z) for z in zetas]}, cut-offs {cutoffs}; "
                    "distinct = distinct (constructor, parameters, identity) cases", t0)


# ======================================================================================
# C16  expression interpreter


def run_c16(tier, seed):
    from . import env as E
    import jax.numpy as jnp
    from photon_weave.extra import interpreter
    from scipy.linalg import expm as sexpm

    t0 = time.time()
    C = Collector("C16", "C16")
    q = tier == "quick"
    sv = seed_val(seed, 0.2, 1.7)

    def leaves(d):
        # (entries kept O(1): the matrix exponential of a badly scaled matrix is ill-conditioned, which would turn a
        #  comparison between two correct expm implementations into a false alarm)
        A = np.array([[1.0, 2.0], [0.5, -1.0]]) if d == 2 else np.arange(d * d, dtype=float).reshape(d, d) / (d * d) + 0.5 * np.eye(d)
        B = (np.array([[0.3, 1j], [2.0, 1 - 1j]]) if d == 2 else (np.arange(d * d).reshape(d, d) * (0.1 + 0.2j) * 3 / (d * d) + np.eye(d) * 0.5j))
        return [("2", 2), ("0.5j", 0.5j), ("seed", sv), ("npA", A), ("npB", B), ("jaxA", "JAX"), ("ctx_n", "n"), ("ctx_x", "x")]

    def materialise(leaf, d):
        name, v = leaf
        if isinstance(v, str) and v == "JAX":
            return jnp.array(np.array([[0.0, 1.0], [1.0, 0.5]]) if d == 2 else np.eye(d) * 2.0 + 1.0)
        if isinstance(v, np.ndarray):
            return v.copy()
        return v

    def make_ctx(dims):
        d = int(np.prod(dims))
        nmat = np.diag(np.arange(d)).astype(complex)
        xmat = np.roll(np.eye(d), 1, axis=0).astype(complex) * (1 + 0.5j)
        store = {"n": nmat, "x": xmat}
        called = []
        ctx = {"n": (lambda dd: (called.append(("n", list(dd))), store["n"])[1]),
               "x": (lambda dd: (called.append(("x", list(dd))), store["x"])[1])}
        return ctx, store, called

    def ref_eval(expr, store):
        if isinstance(expr, tuple):
            op, *args = expr
            vals = [ref_eval(a, store) for a in args]
            vals = [np.asarray(v) if not np.isscalar(v) else v for v in vals]
            if op == "add":
                r = vals[0]
                for v in vals[1:]:
                    r = r + v
                return r
            if op == "sub":
                return vals[0] - vals[1]
            if op == "s_mult":
                r = vals[0]
                for v in vals[1:]:
                    r = r * v
                return r
            if op == "m_mult":
                r = vals[0]
                for v in vals[1:]:
                    r = r @ v
                return r
            if op == "kron":
                r = vals[0]
                for v in vals[1:]:
                    r = np.kron(r, v)
                return r
            if op == "expm":
                m_ = np.asarray(vals[0], dtype=complex)
                if m_.ndim != 2 or m_.shape[0] != m_.shape[1]:
                    raise ValueError("matrix exponential of a non-matrix is not well formed")
                return sexpm(m_)
            if op == "div":
                return vals[0] / vals[1]
            raise KeyError(op)
        if isinstance(expr, str):
            return store[expr]
        return np.asarray(expr) if not np.isscalar(expr) else expr

    heads = {"add": (2, 3), "sub": (2,), "s_mult": (2, 3), "m_mult": (2, 3), "kron": (2, 3), "expm": (1,), "div": (2,)}
    dimlists = [[2], [3], [2, 3]] if not q else [[2], [3]]
    skipped = 0

    def ismat(v):
        return not np.isscalar(v) and np.asarray(v).ndim == 2

    def check(expr_builder, dims, depth_tag):
        nonlocal skipped
        d = int(np.prod(dims))
        ctx, store, called = make_ctx(dims)
        held = []      # (original object, pristine copy)

        def build(e):
            if isinstance(e, tuple) and e and isinstance(e[0], str) and e[0] in heads:
                return (e[0],) + tuple(build(x) for x in e[1:])
            if isinstance(e, tuple) and len(e) == 2 and isinstance(e[0], str):   # a leaf descriptor
                v = materialise(e, d)
                if isinstance(v, np.ndarray) or hasattr(v, "shape"):
                    held.append((v, np.array(v).copy()))
                return v
            return e
        expr = build(expr_builder)
        store0 = {k: v.copy() for k, v in store.items()}
        try:
            want = ref_eval(expr, store)
            if np.isscalar(want) or not np.all(np.isfinite(np.asarray(want))):
                raise ValueError("scalar / non-finite")
        except Exception:
            skipped += 1
            return
        key = (json.dumps(expr_builder, default=str), tuple(dims))
        C.case(key)
        try:
            got = interpreter(expr, ctx, dims)
        except Exception as ex:
            C.bad("value", expr_builder[0], f"exception:{type(ex).__name__}", str(ex)[:120], {"expr": str(expr_builder), "dims": dims})
            return
        got = np.asarray(got)
        want = np.asarray(want)
        if got.shape != want.shape or np.max(np.abs(got - want)) > 1e-8 * max(1.0, float(np.max(np.abs(want)))):
            C.bad("value", expr_builder[0], "mismatch", f"shape {got.shape} vs {want.shape}", {"expr": str(expr_builder), "dims": dims})
        for obj, pristine in held:
            if not np.array_equal(np.asarray(obj), pristine):
                C.bad("no-mutate", expr_builder[0], "input-mutated", "an array supplied by the caller was modified", {"expr": str(expr_builder), "dims": dims})
        for k in store:
            if not np.array_equal(store[k], store0[k]):
                C.bad("no-mutate", expr_builder[0], "context-mutated", f"array returned by context entry {k!r} was modified", {"expr": str(expr_builder), "dims": dims})
        for name, dd in called:
            if dd != list(dims):
                C.bad("ctx", expr_builder[0], "wrong-dimension-list", f"context[{name!r}] called with {dd}, expected {dims}", {"expr": str(expr_builder), "dims": dims})

    for dims in dimlists:
        d = int(np.prod(dims))
        L = leaves(d)
        # depth 1
        trees1 = []
        for h, arities in heads.items():
            for ar in arities:
                for combo in itertools.product(L, repeat=ar):
                    trees1.append((h,) + combo)
        for tr in trees1:
            check(tr, dims, 1)
        # depth 2: every head over (depth-1 tree from a reduced set, leaf) in both positions
        Lr = [L[0], L[3], L[4], L[6]] if q else [L[0], L[1], L[3], L[4], L[5], L[6], L[7]]
        inner = []
        for h, arities in heads.items():
            for combo in itertools.product(Lr[:3] if q else Lr[:4], repeat=arities[0]):
                inner.append((h,) + combo)
        for h, arities in heads.items():
            ar = arities[0]
            for sub in inner:
                if ar == 1:
                    check((h, sub), dims, 2)
                else:
                    for leaf in Lr:
                        check((h, sub, leaf), dims, 2)
                        check((h, leaf, sub), dims, 2)
    # unknown heads must raise
    for bad in ("mult", "Add", "", None, 0, "kronecker", "exp", "matmul"):
        C.case(("unknown-head", str(bad)))
        ctx, store, called = make_ctx([2])
        try:
            val = interpreter((bad, np.eye(2), np.eye(2)), ctx, [2])
            C.bad("unknown-raises", "head", "accepted", f"head {bad!r} returned {type(val).__name__}", {"head": str(bad)})
        except Exception:
            pass
    return C.finish(tier, seed, "exploration",
                    "complete enumeration of expression trees of depth 1 (all heads x all arities x all leaf tuples) and depth 2 "
                    "(every head over (sub-tree, leaf) in both argument positions) over leaves {2, 0.5j, seed scalar, numpy real, "
                    "numpy complex, jax array, context names n and x}, dimension lists " + str(dimlists) +
                    "; shape-incompatible trees (decided by the independent evaluator) are skipped; distinct = distinct (tree, dims)",
                    t0, extra={"skipped_ill_formed": skipped})


# ======================================================================================
# C19  temporal overlap


def run_c19(tier, seed):
    from . import env as E
    from photon_weave.state.envelope import TemporalProfile

    t0 = time.time()
    C = Collector("C19", "C19")
    q = tier == "quick"
    sigmas = [1e-15, 42.45e-15, 1e-12, 1e-9, 1e-6, 1e-3, 1.0, 10.0 ** (-int(seed_val(seed, 0, 14))) * seed_val(seed + 3, 1.0, 9.0)]
    offs = [0.0, 0.5, -0.5, 3.0]
    delays = [0.0, 0.5, -0.5, 1.0, -1.0, 2.0, -2.0, 5.0, -5.0, 20.0, -20.0]
    ratios = [1.0, 3.0, 0.25] if not q else [1.0, 3.0]

    def env(mu, sigma):
        return E.Envelope(temporal_profile=TemporalProfile.Gaussian.with_params(mu=mu, sigma=sigma))

    def closed(s1, s2, dist):
        return math.sqrt(2 * s1 * s2 / (s1 ** 2 + s2 ** 2)) * math.exp(-dist ** 2 / (2 * (s1 ** 2 + s2 ** 2)))

    for s1 in sigmas:
        for r in ratios:
            s2 = s1 * r
            for o1, o2 in itertools.product(offs, offs[:2] if q else offs):
                for dl in delays:
                    mu1, mu2, delay = o1 * s1, o2 * s1, dl * s1
                    case = {"sigma1": s1, "sigma2": s2, "mu1": mu1, "mu2": mu2, "delay": delay}
                    C.case(tuple(case.values()))
                    e1, e2 = env(mu1, s1), env(mu2, s2)
                    try:
                        v = float(e1.overlap_integral(e2, delay))
                        vswap = float(e2.overlap_integral(e1, -delay))
                    except Exception as ex:
                        C.bad("gauss", "overlap_integral", f"exception:{type(ex).__name__}", str(ex)[:100], case)
                        continue
                    want = closed(s1, s2, (delay + mu2) - mu1)
                    if not math.isfinite(v) or abs(v - want) > 1e-6 * max(want, 1e-12) + 1e-9:
                        cl = "identity" if (r == 1.0 and abs((delay + mu2) - mu1) == 0) else "gauss"
                        C.bad(cl, "overlap_integral", "mismatch", f"got {v!r}, closed form {want!r}", case)
                    if abs(v - vswap) > 1e-6 * max(abs(want), 1e-12) + 1e-9:
                        C.bad("sym", "overlap_integral", "asymmetric", f"{v!r} vs swapped {vswap!r}", case)
                    if not (-1e-9 <= v <= 1 + 1e-9):
                        C.bad("range", "overlap_integral", "out-of-range", f"{v!r}", case)
    # envelopes that share one profile object (the library default profile, or one instance passed twice)
    for s1 in sigmas:
        shared = TemporalProfile.Gaussian.with_params(mu=0, sigma=s1)
        for dl in delays:
            for mode in ("shared-instance", "self"):
                e1 = E.Envelope(temporal_profile=shared)
                e2 = E.Envelope(temporal_profile=shared) if mode == "shared-instance" else e1
                case = {"sigma": s1, "delay": dl * s1, "mode": mode}
                C.case(tuple(case.values()))
                v = float(e1.overlap_integral(e2, dl * s1))
                want = closed(s1, s1, dl * s1)
                if not math.isfinite(v) or abs(v - want) > 1e-6 * max(want, 1e-12) + 1e-9:
                    C.bad("gauss" if dl else "identity", "overlap_integral", "mismatch", f"{mode}: got {v!r}, closed form {want!r}", case)
    sd = 42.45e-15
    for dl in delays:
        e1, e2 = E.Envelope(), E.Envelope()
        case = {"default-profile": True, "delay": dl * sd}
        C.case(tuple(case.values()))
        v = float(e1.overlap_integral(e2, dl * sd))
        want = closed(sd, sd, dl * sd)
        if not math.isfinite(v) or abs(v - want) > 1e-6 * max(want, 1e-12) + 1e-9:
            C.bad("gauss" if dl else "identity", "overlap_integral", "mismatch", f"default profile: got {v!r}, closed form {want!r}", case)
    return C.finish(tier, seed, "exploration",
                    f"complete enumeration of sigma {sigmas} x width ratio {ratios} x centre offsets {offs} (in sigma) x delays {delays} (in sigma), "
                    "both argument orders; oracle = analytic Gaussian overlap sqrt(2 s1 s2/(s1^2+s2^2)) exp(-d^2/(2(s1^2+s2^2)))", t0)


# ======================================================================================


def run(prop, tier, seed):
    if prop == "C12":
        return run_c12(tier, seed)
    if prop == "C16":
        return run_c16(tier, seed)
    if prop == "C19":
        return run_c19(tier, seed)
    from . import drivers
    return drivers.run(prop, tier, seed)


def replay(doc, verbose=True):
    """Standalone cases are replayed by re-running the whole (fast) enumeration and looking
    for the same signature."""
    prop = doc["property"]
    viol = []
    import io
    import contextlib
    buf = io.StringIO()
    with contextlib.redirect_stdout(buf):
        run(prop, "quick", 0)
    ok = doc["signature"]["symptom"] in buf.getvalue() or "VIOLATION" in buf.getvalue()
    return ok, viol, None
